//! Abstract terms (the JSON form used by the TLA+ specification), the builder
//! JSON -> Unifiable (never uses the parser or make_linked_list: code under
//! test is not used to build inputs), the projection Unifiable -> abstract
//! term (the abstraction function; it CHECKS list well-formedness while
//! flattening cons cells), a cycle-safe resolver over SubstitutionSet, and
//! the canonical form "up to renaming of unbound variables".

use serde_json::{json, Value};
use std::rc::Rc;
use suiron::*;

#[derive(Debug, Clone, PartialEq)]
pub enum Tm {
    None,
    Atom(String),
    /// exact number n * 2^e ; tag "" | "inf" | "-inf" | "nan"
    Int(i64, i64),
    Flt(i64, i64, String),
    Var(usize, String),
    Anon,
    Cx(String, Vec<Tm>),
    Fn(String, Vec<Tm>),
    /// elements, optional tail
    List(Vec<Tm>, Option<Box<Tm>>),
    /// numbers outside the exact n*2^e encoding (only compared for identity)
    BigInt(i64),
    BigFlt(u64),
    /// something the abstraction cannot represent (malformed list cell,
    /// binding cycle, number outside the exact encoding, raw Nil ...)
    Bad(String),
}

pub fn tm_from_json(v: &Value) -> Tm {
    let k = v["k"].as_str().unwrap_or("?");
    let s = || v["s"].as_str().unwrap_or("").to_string();
    let n = || v["n"].as_i64().unwrap_or(0);
    let e = || v["e"].as_i64().unwrap_or(0);
    let seq = |key: &str| -> Vec<Tm> {
        v[key].as_array().map(|a| a.iter().map(tm_from_json).collect()).unwrap_or_default()
    };
    match k {
        "none" => Tm::None,
        "atom" => Tm::Atom(s()),
        "int" => {
            // an integer next to a power of two: n * 2^e + 1 / - 1 (the specification's IntA)
            let adj: i128 = match v["s"].as_str().unwrap_or("") { "+1" => 1, "-1" => -1, _ => 0 };
            if adj != 0 {
                let val = ((n() as i128) << (e() as u32)) + adj;
                if val > i64::MAX as i128 || val < i64::MIN as i128 { Tm::Bad("int out of range".into()) } else { tm_of_i64(val as i64) }
            } else { norm_int(n(), e()) }
        }
        "flt" => {
            // a float next to a power of two: n * 2^e + 1 / - 1 (the specification's FltA; an f64 below 2^53)
            let adj: i128 = match v["s"].as_str().unwrap_or("") { "+1" => 1, "-1" => -1, _ => 0 };
            if adj != 0 {
                let val = ((n() as i128) << (e() as u32)) + adj;
                if val.abs() > (1i128 << 53) { Tm::Bad("float out of range".into()) } else { tm_of_f64(val as f64) }
            } else { norm_flt(n(), e(), s()) }
        }
        "ftx" => tm_of_f64(s().parse::<f64>().unwrap_or(f64::NAN)),
        "var" => Tm::Var(n() as usize, s()),
        "anon" => Tm::Anon,
        "cx" => Tm::Cx(s(), seq("a")),
        "fn" => Tm::Fn(s(), seq("a")),
        "list" => {
            let t = seq("t");
            Tm::List(seq("a"), t.into_iter().next().map(Box::new))
        }
        "bad" => Tm::Bad(s()),
        "bigint" => Tm::BigInt(s().parse().unwrap_or(0)),
        "bigflt" => Tm::BigFlt(s().parse().unwrap_or(0)),
        other => Tm::Bad(format!("unknown kind {}", other)),
    }
}

pub fn tm_to_json(t: &Tm) -> Value {
    match t {
        Tm::None => json!({"k": "none"}),
        Tm::Atom(s) => json!({"k": "atom", "s": s}),
        Tm::Int(n, e) => json!({"k": "int", "n": n, "e": e, "s": ""}),
        Tm::Flt(n, e, s) => json!({"k": "flt", "n": n, "e": e, "s": s}),
        Tm::Var(n, s) => json!({"k": "var", "n": n, "s": s}),
        Tm::Anon => json!({"k": "anon"}),
        Tm::Cx(f, a) => json!({"k": "cx", "s": f, "a": a.iter().map(tm_to_json).collect::<Vec<_>>()}),
        Tm::Fn(f, a) => json!({"k": "fn", "s": f, "a": a.iter().map(tm_to_json).collect::<Vec<_>>()}),
        Tm::List(a, t) => json!({"k": "list",
            "a": a.iter().map(tm_to_json).collect::<Vec<_>>(),
            "t": t.iter().map(|x| tm_to_json(x)).collect::<Vec<_>>()}),
        Tm::Bad(s) => json!({"k": "bad", "s": s}),
        // an integer next to an n * 2^e with a small n is written the way the specification writes it (IntA)
        Tm::BigInt(i) => {
            for (adj, tag) in [(1i128, "+1"), (-1i128, "-1")] {
                let base = *i as i128 - adj;
                if base >= i64::MIN as i128 && base <= i64::MAX as i128 { if let Tm::Int(n, e) = tm_of_i64(base as i64) { return json!({"k": "int", "n": n, "e": e, "s": tag}); } }
                if base == (i64::MAX as i128) + 1 { return json!({"k": "int", "n": 1, "e": 63, "s": tag}); }
            }
            json!({"k": "bigint", "s": i.to_string()})
        }
        // a float which is an integer below 2^53 next to an n * 2^e with a small n: the specification's FltA
        Tm::BigFlt(b) => {
            let f = f64::from_bits(*b);
            if f.is_finite() && f.fract() == 0.0 && f.abs() <= 9007199254740992.0 {
                for (adj, tag) in [(1.0f64, "+1"), (-1.0f64, "-1")] {
                    if let Tm::Flt(n, e, t) = tm_of_f64(f - adj) { if t.is_empty() && (f - adj) + adj == f { return json!({"k": "flt", "n": n, "e": e, "s": tag}); } }
                }
            }
            json!({"k": "bigflt", "s": b.to_string()})
        }
    }
}

/// Human-readable rendering (for reports only).
pub fn show(t: &Tm) -> String {
    match t {
        Tm::None => "<unbound>".into(),
        Tm::Atom(s) => s.clone(),
        Tm::Int(n, e) => if *e == 0 { format!("{}", n) } else { format!("{}*2^{}", n, e) },
        Tm::Flt(n, e, s) => if !s.is_empty() { s.clone() } else { format!("{:?}", flt_value(*n, *e, s)) },
        Tm::Var(n, s) => format!("{}_{}", s, n),
        Tm::Anon => "$_".into(),
        Tm::Cx(f, a) | Tm::Fn(f, a) => format!("{}({})", f, a.iter().map(show).collect::<Vec<_>>().join(", ")),
        Tm::List(a, t) => {
            let els = a.iter().map(show).collect::<Vec<_>>().join(", ");
            match t { Some(t) => format!("[{} | {}]", els, show(t)), None => format!("[{}]", els) }
        }
        Tm::Bad(s) => format!("<BAD {}>", s),
        Tm::BigInt(i) => format!("{}", i),
        Tm::BigFlt(b) => format!("{:?}", f64::from_bits(*b)),
    }
}

fn norm_int(mut n: i64, mut e: i64) -> Tm {
    if n == 0 { return Tm::Int(0, 0); }
    while n % 2 == 0 { n /= 2; e += 1; }
    Tm::Int(n, e)
}
fn norm_flt(mut n: i64, mut e: i64, s: String) -> Tm {
    if !s.is_empty() { return Tm::Flt(0, 0, s); }
    if n == 0 { return Tm::Flt(0, 0, s); }
    while n % 2 == 0 { n /= 2; e += 1; }
    Tm::Flt(n, e, s)
}

pub fn int_value(n: i64, e: i64) -> Option<i64> {
    if e < 0 || e > 63 { return if n == 0 { Some(0) } else { None }; }
    let v = (n as i128) << e;
    if v > i64::MAX as i128 || v < i64::MIN as i128 { None } else { Some(v as i64) }
}
pub fn flt_value(n: i64, e: i64, tag: &str) -> f64 {
    match tag {
        "inf" => f64::INFINITY,
        "-inf" => f64::NEG_INFINITY,
        "nan" => f64::NAN,
        "-0" => -0.0,
        _ => (n as f64) * 2f64.powi(e as i32),
    }
}
pub fn tm_of_i64(i: i64) -> Tm {
    if i == 0 { return Tm::Int(0, 0); }
    let mut n = i; let mut e = 0;
    while n % 2 == 0 { n /= 2; e += 1; }
    if n.abs() >= (1 << 31) { return Tm::BigInt(i); }
    Tm::Int(n, e)
}
pub fn tm_of_f64(f: f64) -> Tm {
    if f.is_nan() { return Tm::Flt(0, 0, "nan".into()); }
    if f == f64::INFINITY { return Tm::Flt(0, 0, "inf".into()); }
    if f == f64::NEG_INFINITY { return Tm::Flt(0, 0, "-inf".into()); }
    if f == 0.0 {
        return if f.is_sign_negative() { Tm::Flt(0, 0, "-0".into()) } else { Tm::Flt(0, 0, "".into()) };
    }
    let bits = f.to_bits();
    let sign: i64 = if (bits >> 63) == 1 { -1 } else { 1 };
    let exp = ((bits >> 52) & 0x7ff) as i64;
    let frac = (bits & 0xf_ffff_ffff_ffff) as i64;
    let (mut m, mut e) = if exp == 0 { (frac, -1074) } else { (frac | (1 << 52), exp - 1075) };
    while m % 2 == 0 { m /= 2; e += 1; }
    if m >= (1 << 31) { return Tm::BigFlt(f.to_bits()); }
    Tm::Flt(sign * m, e, "".into())
}

// ------------------------------------------------------------------ builder

fn cell(term: Unifiable, next: Unifiable, count: usize, tail_var: bool) -> Unifiable {
    Unifiable::SLinkedList { term: Box::new(term), next: Box::new(next), count, tail_var }
}
pub fn empty_list() -> Unifiable { cell(Unifiable::Nil, Unifiable::Nil, 0, false) }

/// Build the engine's canonical representation of an abstract term.
pub fn build(t: &Tm) -> Unifiable {
    match t {
        Tm::Atom(s) => Unifiable::Atom(s.clone()),
        Tm::Int(n, e) => Unifiable::SInteger(int_value(*n, *e).expect("int out of range in case")),
        Tm::Flt(n, e, s) => Unifiable::SFloat(flt_value(*n, *e, s)),
        Tm::Var(n, s) => Unifiable::LogicVar { id: *n, name: s.clone() },
        Tm::Anon => Unifiable::Anonymous,
        Tm::Cx(f, a) => {
            let mut v = vec![Unifiable::Atom(f.clone())];
            v.extend(a.iter().map(build));
            Unifiable::SComplex(v)
        }
        Tm::Fn(f, a) => Unifiable::SFunction { name: f.clone(), terms: a.iter().map(build).collect() },
        Tm::List(a, t) => {
            let mut node = empty_list();
            let mut count = 0;
            if let Some(t) = t {
                count += 1;
                node = cell(build(t), node, count, true);
            }
            for el in a.iter().rev() {
                count += 1;
                node = cell(build(el), node, count, false);
            }
            node
        }
        Tm::BigInt(i) => Unifiable::SInteger(*i),
        Tm::BigFlt(b) => Unifiable::SFloat(f64::from_bits(*b)),
        Tm::None | Tm::Bad(_) => panic!("harness: cannot build {:?}", t),
    }
}

// --------------------------------------------------------------- projection

/// Abstraction function. Flattens cons cells and checks the canonical
/// representation: terminated by the empty node {Nil, Nil, 0}, `count` equal
/// to the number of remaining cells, `tail_var` only on the last cell.
/// A malformed list is reported (Tm::Bad), never normalised away.
pub fn project(u: &Unifiable) -> Tm {
    match u {
        Unifiable::Nil => Tm::Bad("Nil".into()),
        Unifiable::Anonymous => Tm::Anon,
        Unifiable::Atom(s) => Tm::Atom(s.clone()),
        Unifiable::SFloat(f) => tm_of_f64(*f),
        Unifiable::SInteger(i) => tm_of_i64(*i),
        Unifiable::LogicVar { id, name } => Tm::Var(*id, name.clone()),
        Unifiable::SComplex(v) => {
            if v.is_empty() { return Tm::Bad("empty complex".into()); }
            let f = match &v[0] { Unifiable::Atom(s) => s.clone(), o => return Tm::Bad(format!("functor {}", o)) };
            Tm::Cx(f, v[1..].iter().map(project).collect())
        }
        Unifiable::SFunction { name, terms } => Tm::Fn(name.clone(), terms.iter().map(project).collect()),
        Unifiable::SLinkedList { .. } => project_list(u),
    }
}

fn project_list(u: &Unifiable) -> Tm {
    // collect cells
    let mut cells: Vec<(&Unifiable, usize, bool)> = vec![];
    let mut cur = u;
    loop {
        match cur {
            Unifiable::SLinkedList { term, next, count, tail_var } => {
                cells.push((term, *count, *tail_var));
                if **term == Unifiable::Nil {
                    if **next != Unifiable::Nil { return Tm::Bad("list: terminator cell has a next".into()); }
                    break;
                }
                cur = next;
            }
            Unifiable::Nil => return Tm::Bad("list: next is Nil before the empty terminator cell".into()),
            other => return Tm::Bad(format!("list: next is not a list cell: {}", other)),
        }
        if cells.len() > 10000 { return Tm::Bad("list: too long".into()); }
    }
    let n = cells.len() - 1; // cells before the terminator
    let mut els = vec![];
    let mut tail = None;
    for (i, (term, count, tv)) in cells.iter().enumerate() {
        if i == n {
            if *count != 0 || *tv { return Tm::Bad("list: terminator cell count/tail_var".into()); }
            break;
        }
        if *count != n - i { return Tm::Bad(format!("list: count {} at cell {} of {}", count, i, n)); }
        if *tv {
            if i != n - 1 { return Tm::Bad("list: tail_var before the last cell".into()); }
            tail = Some(Box::new(project(term)));
        } else {
            els.push(project(term));
        }
    }
    Tm::List(els, tail)
}

// ----------------------------------------------------------------- resolver

/// Fully dereference `t` through `ss`, with our own cycle detection (never
/// through the engine's chain followers, which would not terminate on a
/// cycle).  A bound list tail is spliced in.
pub fn resolve(t: &Tm, ss: &[Option<Rc<Unifiable>>]) -> Tm {
    let mut path = vec![];
    resolve_in(t, ss, &mut path, 0)
}

fn resolve_in(t: &Tm, ss: &[Option<Rc<Unifiable>>], path: &mut Vec<usize>, depth: usize) -> Tm {
    if depth > 2000 { return Tm::Bad("resolve: too deep".into()); }
    match t {
        Tm::Var(id, _) => {
            if *id < ss.len() {
                if let Some(b) = &ss[*id] {
                    if path.contains(id) { return Tm::Bad("cycle".into()); }
                    path.push(*id);
                    let r = resolve_in(&project(b), ss, path, depth + 1);
                    path.pop();
                    return r;
                }
            }
            t.clone()
        }
        Tm::Cx(f, a) => Tm::Cx(f.clone(), a.iter().map(|x| resolve_in(x, ss, path, depth + 1)).collect()),
        Tm::Fn(f, a) => Tm::Fn(f.clone(), a.iter().map(|x| resolve_in(x, ss, path, depth + 1)).collect()),
        Tm::List(a, tl) => {
            let mut els: Vec<Tm> = a.iter().map(|x| resolve_in(x, ss, path, depth + 1)).collect();
            match tl {
                None => Tm::List(els, None),
                Some(tl) => match resolve_in(tl, ss, path, depth + 1) {
                    Tm::List(a2, t2) => { els.extend(a2); Tm::List(els, t2) }
                    other => Tm::List(els, Some(Box::new(other))),
                },
            }
        }
        other => other.clone(),
    }
}

/// Does following bindings from any variable come back to it?
pub fn has_cycle(ss: &[Option<Rc<Unifiable>>]) -> bool {
    for id in 0..ss.len() {
        if ss[id].is_some() && contains_bad(&resolve(&Tm::Var(id, String::new()), ss), "cycle") { return true; }
    }
    false
}

pub fn contains_bad(t: &Tm, what: &str) -> bool {
    match t {
        Tm::Bad(s) => what.is_empty() || s.contains(what),
        Tm::Cx(_, a) | Tm::Fn(_, a) => a.iter().any(|x| contains_bad(x, what)),
        Tm::List(a, tl) => a.iter().any(|x| contains_bad(x, what)) || tl.as_ref().map_or(false, |x| contains_bad(x, what)),
        _ => false,
    }
}
pub fn contains_anon(t: &Tm) -> bool {
    match t {
        Tm::Anon => true,
        Tm::Cx(_, a) | Tm::Fn(_, a) => a.iter().any(contains_anon),
        Tm::List(a, tl) => a.iter().any(contains_anon) || tl.as_ref().map_or(false, |x| contains_anon(x)),
        _ => false,
    }
}

// --------------------------------------------------------------- canonical

fn occ(t: &Tm, acc: &mut Vec<usize>) {
    match t {
        Tm::Var(id, _) => if !acc.contains(id) { acc.push(*id) },
        Tm::Cx(_, a) | Tm::Fn(_, a) => a.iter().for_each(|x| occ(x, acc)),
        Tm::List(a, tl) => { a.iter().for_each(|x| occ(x, acc)); if let Some(x) = tl { occ(x, acc) } }
        _ => {}
    }
}
fn rename(t: &Tm, acc: &[usize]) -> Tm {
    match t {
        Tm::Var(id, _) => Tm::Var(acc.iter().position(|x| x == id).unwrap() + 1, "_G".into()),
        Tm::Cx(f, a) => Tm::Cx(f.clone(), a.iter().map(|x| rename(x, acc)).collect()),
        Tm::Fn(f, a) => Tm::Fn(f.clone(), a.iter().map(|x| rename(x, acc)).collect()),
        Tm::List(a, tl) => Tm::List(a.iter().map(|x| rename(x, acc)).collect(), tl.as_ref().map(|x| Box::new(rename(x, acc)))),
        other => other.clone(),
    }
}
/// Rename unbound variables by first occurrence (ids 1.., name "_G").
pub fn canon(vec: &[Tm]) -> Vec<Tm> {
    let mut acc = vec![];
    vec.iter().for_each(|t| occ(t, &mut acc));
    vec.iter().map(|t| rename(t, &acc)).collect()
}

pub fn show_vec(v: &[Tm]) -> String { v.iter().map(show).collect::<Vec<_>>().join(" ; ") }

/// Build a SubstitutionSet (index = variable id, slot 0 unused) from a prior.
pub fn build_ss(prior: &[Tm]) -> Rc<SubstitutionSet<'static>> {
    let mut ss: SubstitutionSet = vec![None];
    let mut last = 0;
    for (i, t) in prior.iter().enumerate() { if *t != Tm::None { last = i + 1; } }
    for t in prior.iter().take(last) {
        ss.push(match t { Tm::None => None, t => Some(Rc::new(build(t))) });
    }
    if last == 0 { ss.clear(); }
    Rc::new(ss)
}

/// -0.0 and 0.0 are the same number: computed results are compared modulo the sign of zero.
pub fn unsign_zero(t: &Tm) -> Tm {
    match t {
        Tm::Flt(0, 0, s) if s == "-0" => Tm::Flt(0, 0, String::new()),
        Tm::Cx(f, a) => Tm::Cx(f.clone(), a.iter().map(unsign_zero).collect()),
        Tm::Fn(f, a) => Tm::Fn(f.clone(), a.iter().map(unsign_zero).collect()),
        Tm::List(a, tl) => Tm::List(a.iter().map(unsign_zero).collect(), tl.as_ref().map(|x| Box::new(unsign_zero(x)))),
        other => other.clone(),
    }
}
