//! `gen-trace`: run randomly generated programs (larger than the exhaustive
//! slices) on the real engine with the recording hooks on, and write the
//! executions as ndjson for validation by TraceSolver.tla.

use crate::capture;
use crate::solve::{build_kb, run_query};
use crate::term::*;
use rand::rngs::StdRng;
use rand::{Rng, SeedableRng};
use serde_json::{json, Value};
use std::io::Write;
use suiron::*;

fn atom(s: &str) -> Value { json!({"k": "atom", "s": s}) }
fn var(s: &str) -> Value { json!({"k": "var", "n": 0, "s": s}) }
fn cx(f: &str, a: Vec<Value>) -> Value { json!({"k": "cx", "s": f, "a": a}) }
fn call(t: Value) -> Value { json!({"g": "call", "t": t}) }
fn bip(f: &str, a: Vec<Value>) -> Value { json!({"g": "bip", "f": f, "a": a}) }

const ATOMS: [&str; 3] = ["a", "b", "c"];
const VARS: [&str; 3] = ["$X", "$Y", "$Z"];

struct Gen { rng: StdRng }
impl Gen {
    fn pick<'a>(&mut self, xs: &'a [&'a str]) -> &'a str { xs[self.rng.gen_range(0..xs.len())] }
    fn arg(&mut self) -> Value { if self.rng.gen_bool(0.6) { var(self.pick(&VARS)) } else { atom(self.pick(&ATOMS)) } }
    /// a literal of a clause of level `lvl` (calls go to lower levels only: stratified, terminating)
    fn literal(&mut self, lvl: usize, allow_cut: bool) -> Value {
        let r = self.rng.gen_range(0..100);
        if r < 45 {
            let callee = self.rng.gen_range(0..=lvl);            // 0 = base facts
            if callee == 0 {
                if self.rng.gen_bool(0.7) { call(cx(self.pick(&["q", "r"]), vec![self.arg()])) }
                else { call(cx("s", vec![self.arg(), self.arg()])) }
            } else { call(cx(&format!("d{}", callee - 1 + 1 - 1), vec![self.arg()])) }
        } else if r < 60 { bip("unify", vec![var(self.pick(&VARS)), self.arg()]) }
        else if r < 68 { bip(self.pick(&["equal", "less_than", "greater_than_or_equal"]), vec![self.arg(), atom(self.pick(&ATOMS))]) }
        else if r < 76 { json!({"g": "not", "gs": [call(cx(self.pick(&["q", "r"]), vec![self.arg()]))]}) }
        else if r < 84 { bip("print", vec![atom(self.pick(&["<", "*", "-"]))]) }
        else if r < 90 && allow_cut { bip("!", vec![]) }
        else if r < 94 { bip("fail", vec![]) }
        else { bip("unify", vec![var(self.pick(&VARS)), json!({"k": "list", "a": [self.arg()], "t": []})]) }
    }
    fn body(&mut self, lvl: usize, depth: usize) -> Value {
        let r = self.rng.gen_range(0..100);
        if depth == 0 || r < 25 { return self.literal(lvl, true); }
        let n = self.rng.gen_range(2..=3);
        if r < 70 {
            let gs: Vec<Value> = (0..n).map(|_| if self.rng.gen_bool(0.25) { self.body(lvl, depth - 1) } else { self.literal(lvl, true) }).collect();
            json!({"g": "and", "gs": gs})
        } else {
            let gs: Vec<Value> = (0..n).map(|_| if self.rng.gen_bool(0.4) { self.body(lvl, depth - 1) } else { self.literal(lvl, true) }).collect();
            json!({"g": "or", "gs": gs})
        }
    }
    fn program(&mut self) -> (Value, Value) {
        let mut prog: Vec<Value> = vec![];
        for a in ATOMS.iter() { if self.rng.gen_bool(0.7) { prog.push(json!({"head": cx("q", vec![atom(a)]), "body": {"g": "nil"}})); } }
        for a in ATOMS.iter() { if self.rng.gen_bool(0.6) { prog.push(json!({"head": cx("r", vec![atom(a)]), "body": {"g": "nil"}})); } }
        for _ in 0..self.rng.gen_range(1..4) { let x = atom(self.pick(&ATOMS)); let y = atom(self.pick(&ATOMS)); prog.push(json!({"head": cx("s", vec![x, y]), "body": {"g": "nil"}})); }
        let levels = self.rng.gen_range(1..=3);
        for lvl in 0..levels {
            for _ in 0..self.rng.gen_range(1..=3) {
                let head_arg = if self.rng.gen_bool(0.8) { var("$X") } else { atom(self.pick(&ATOMS)) };
                let body = if self.rng.gen_bool(0.12) { json!({"g": "nil"}) } else { self.body(lvl, 2) };
                prog.push(json!({"head": cx(&format!("d{}", lvl), vec![head_arg]), "body": body}));
            }
        }
        let qarg = if self.rng.gen_bool(0.8) { var("$Q") } else { atom(self.pick(&ATOMS)) };
        (Value::Array(prog), cx(&format!("d{}", levels - 1), vec![qarg]))
    }
}

/// gen-trace <out.ndjson> <seed> <runs>
pub fn main(out: &str, seed: u64, runs: usize) -> i32 {
    capture::install();
    crate::syntax::install_panic_hook();
    let mut g = Gen { rng: StdRng::seed_from_u64(seed) };
    let mut f = std::io::BufWriter::new(std::fs::File::create(out).unwrap());
    let mut done = 0;
    let mut attempts = 0;
    while done < runs && attempts < runs * 20 {
        attempts += 1;
        let (prog, query) = g.program();
        let kb = build_kb(&prog);
        start_query();
        let qt = tm_from_json(&query);
        let qterms: Vec<Unifiable> = match build(&qt) { Unifiable::SComplex(v) => v, _ => vec![] };
        let q = make_query(qterms);
        // record: ask / engine events / ret, until "no more" and once more
        let mut lines: Vec<String> = vec![json!({"e": "program", "prog": prog, "query": query}).to_string()];
        let sn_goal = q.clone();
        let mut asks = 0; let mut nones = 0; let mut events = 0; let mut ok = true;
        let sn = make_base_node(std::rc::Rc::new(sn_goal.clone()), &kb);
        let args: Vec<Tm> = match &sn_goal { Goal::ComplexGoal(Unifiable::SComplex(v)) => v[1..].iter().map(project).collect(), _ => vec![] };
        suiron::verif_hooks::take_events();
        capture::take();
        while nones < 2 && asks < 40 {
            asks += 1;
            lines.push(json!({"e": "ask"}).to_string());
            suiron::verif_hooks::record(true);
            let r = std::panic::catch_unwind(std::panic::AssertUnwindSafe(|| next_solution(std::rc::Rc::clone(&sn)).map(|s| (*s).clone())));
            suiron::verif_hooks::record(false);
            let out_text = capture::take();
            let evs = suiron::verif_hooks::take_events();
            events += evs.len();
            if events > 3000 { ok = false; break; }             // over budget: discard, never flag
            lines.extend(evs);
            match r {
                Ok(Some(ss)) => {
                    let ans = canon(&args.iter().map(|t| resolve(t, &ss)).collect::<Vec<_>>());
                    lines.push(json!({"e": "ret", "some": true, "ans": ans.iter().map(tm_to_json).collect::<Vec<_>>(), "out": out_text}).to_string());
                }
                Ok(None) => { nones += 1; lines.push(json!({"e": "ret", "some": false, "ans": [], "out": out_text}).to_string()); }
                Err(_) => { ok = false; break; }                 // a panic: outside the fragment generated here (reported by the replay checks)
            }
        }
        if !ok || nones < 2 { continue; }
        let _ = run_query;   // (shared helpers live in solve.rs)
        for l in lines { writeln!(f, "{}", l).unwrap(); }
        done += 1;
    }
    f.flush().unwrap();
    eprintln!("gen-trace: {} runs written ({} attempts)", done, attempts);
    0
}
