//! `gen-trace`: run randomly generated programs (larger than the exhaustive
//! slices) on the real engine with the recording hooks on, and write the
//! executions as ndjson for validation by TraceSolver.tla.
//!
//! Program families (all terminating: stratified, or structurally recursive over finite data):
//!   0  stratified programs over unary/binary facts: calls, =, comparisons, not, print, cut, fail,
//!      nested conjunction / disjunction
//!   1  the list library (mem, app, len, rev, last, both + count/append built-ins) with random
//!      finite lists (nested and empty elements) in the queries
//!   2  integer facts with arithmetic function terms and numeric comparisons in bodies
//!   3  structured heads: complex-term and list-pattern arguments, binary predicates, shared variables,
//!      anonymous variables, repeated clause variable names
//!   4  cut-heavy: `!` at random positions of conjunctions and disjunctions, called predicates that cut,
//!      later clauses that succeed / print
//!   5  multiplicity and lookup: duplicate facts, ground goals provable several times, one functor with two
//!      arities, clauses of two predicates interleaved, four- and five-goal conjunctions, repeated query variables
//!
//! The recorder runs in a worker process: a panic is recorded as a `panic` event, a dead worker
//! (stack overflow, abort) as `crash`, a worker that makes no progress as `hang`; the trace
//! specification accepts those only for programs outside the claimed fragment.

use crate::capture;
use crate::solve::build_kb;
use crate::term::*;
use rand::rngs::StdRng;
use rand::{Rng, SeedableRng};
use serde_json::{json, Value};
use std::io::Write;
use std::sync::atomic::{AtomicUsize, Ordering};
use std::sync::Arc;
use suiron::*;

fn atom(s: &str) -> Value { json!({"k": "atom", "s": s}) }
fn int(n: i64) -> Value { json!({"k": "int", "n": n, "e": 0, "s": ""}) }
fn var(s: &str) -> Value { json!({"k": "var", "n": 0, "s": s}) }
fn anon() -> Value { json!({"k": "anon"}) }
fn cx(f: &str, a: Vec<Value>) -> Value { json!({"k": "cx", "s": f, "a": a}) }
fn func(f: &str, a: Vec<Value>) -> Value { json!({"k": "fn", "s": f, "a": a}) }
fn list(a: Vec<Value>) -> Value { json!({"k": "list", "a": a, "t": []}) }
fn list_t(a: Vec<Value>, t: Value) -> Value { json!({"k": "list", "a": a, "t": [t]}) }
fn call(t: Value) -> Value { json!({"g": "call", "t": t}) }
fn bip(f: &str, a: Vec<Value>) -> Value { json!({"g": "bip", "f": f, "a": a}) }
fn and(gs: Vec<Value>) -> Value { json!({"g": "and", "gs": gs}) }
fn or(gs: Vec<Value>) -> Value { json!({"g": "or", "gs": gs}) }
fn not(g: Value) -> Value { json!({"g": "not", "gs": [g]}) }
fn fact(h: Value) -> Value { json!({"head": h, "body": {"g": "nil"}}) }
fn rule(h: Value, b: Value) -> Value { json!({"head": h, "body": b}) }

const ATOMS: [&str; 3] = ["a", "b", "c"];
const VARS: [&str; 3] = ["$X", "$Y", "$Z"];

struct Gen { rng: StdRng }
impl Gen {
    fn pick<'a>(&mut self, xs: &'a [&'a str]) -> &'a str { xs[self.rng.gen_range(0..xs.len())] }
    fn arg(&mut self) -> Value { if self.rng.gen_bool(0.6) { var(self.pick(&VARS)) } else { atom(self.pick(&ATOMS)) } }

    // ---------------------------------------------------------------- family 0 (and 4)
    /// a literal of a clause of level `lvl` (calls go to lower levels only: stratified, terminating)
    fn literal(&mut self, lvl: usize, cut_pct: u32) -> Value {
        let r = self.rng.gen_range(0..100);
        if r < cut_pct { return bip("!", vec![]); }
        let r = self.rng.gen_range(0..100);
        if r < 48 {
            let callee = self.rng.gen_range(0..=lvl);            // 0 = base facts
            if callee == 0 {
                if self.rng.gen_bool(0.7) { call(cx(self.pick(&["q", "r"]), vec![self.arg()])) }
                else { call(cx("s", vec![self.arg(), self.arg()])) }
            } else { call(cx(&format!("d{}", callee - 1), vec![self.arg()])) }
        } else if r < 63 { bip("unify", vec![var(self.pick(&VARS)), self.arg()]) }
        else if r < 71 { bip(self.pick(&["equal", "less_than", "greater_than_or_equal"]), vec![self.arg(), atom(self.pick(&ATOMS))]) }
        else if r < 80 {
            let inner = if self.rng.gen_bool(0.7) { call(cx(self.pick(&["q", "r"]), vec![self.arg()])) }
                        else { and(vec![call(cx("q", vec![self.arg()])), bip("unify", vec![var(self.pick(&VARS)), self.arg()])]) };
            not(inner)
        }
        else if r < 86 { bip("print", vec![atom(self.pick(&["<", "*", "-"]))]) }
        else if r < 89 { bip("print", vec![var(self.pick(&VARS))]) }      // unbound -> outside the claim; bound -> its value
        else if r < 94 { bip("fail", vec![]) }
        else { bip("unify", vec![var(self.pick(&VARS)), list(vec![self.arg()])]) }
    }
    fn body(&mut self, lvl: usize, depth: usize, cut_pct: u32) -> Value {
        let r = self.rng.gen_range(0..100);
        if depth == 0 || r < 25 { return self.literal(lvl, cut_pct); }
        let n = self.rng.gen_range(2..=3);
        if r < 70 {
            and((0..n).map(|_| if self.rng.gen_bool(0.25) { self.body(lvl, depth - 1, cut_pct) } else { self.literal(lvl, cut_pct) }).collect())
        } else {
            or((0..n).map(|_| if self.rng.gen_bool(0.4) { self.body(lvl, depth - 1, cut_pct) } else { self.literal(lvl, cut_pct) }).collect())
        }
    }
    fn base_facts(&mut self, prog: &mut Vec<Value>) {
        for a in ATOMS.iter() { if self.rng.gen_bool(0.7) { prog.push(fact(cx("q", vec![atom(a)]))); } }
        for a in ATOMS.iter() { if self.rng.gen_bool(0.6) { prog.push(fact(cx("r", vec![atom(a)]))); } }
        for _ in 0..self.rng.gen_range(1..4) { let x = atom(self.pick(&ATOMS)); let y = atom(self.pick(&ATOMS)); prog.push(fact(cx("s", vec![x, y]))); }
    }
    fn stratified(&mut self, cut_pct: u32) -> (Value, Value) {
        let mut prog: Vec<Value> = vec![];
        self.base_facts(&mut prog);
        let levels = self.rng.gen_range(1..=3);
        for lvl in 0..levels {
            for _ in 0..self.rng.gen_range(1..=3) {
                let head_arg = if self.rng.gen_bool(0.8) { var("$X") } else { atom(self.pick(&ATOMS)) };
                let body = if self.rng.gen_bool(0.12) { json!({"g": "nil"}) } else { self.body(lvl, 2, cut_pct) };
                prog.push(rule(cx(&format!("d{}", lvl), vec![head_arg]), body));
            }
        }
        let qarg = if self.rng.gen_bool(0.8) { var("$Q") } else { atom(self.pick(&ATOMS)) };
        (Value::Array(prog), cx(&format!("d{}", levels - 1), vec![qarg]))
    }

    // ---------------------------------------------------------------- family 1: lists
    fn list_lib() -> Vec<Value> {
        let (x, h, t, l, n, m, r) = (var("$X"), var("$H"), var("$T"), var("$L"), var("$N"), var("$M"), var("$R"));
        vec![
            fact(cx("mem", vec![x.clone(), list_t(vec![x.clone()], var("$_T"))])),
            rule(cx("mem", vec![x.clone(), list_t(vec![var("$_H")], t.clone())]), call(cx("mem", vec![x.clone(), t.clone()]))),
            fact(cx("app", vec![list(vec![]), l.clone(), l.clone()])),
            rule(cx("app", vec![list_t(vec![h.clone()], t.clone()), l.clone(), list_t(vec![h.clone()], r.clone())]), call(cx("app", vec![t.clone(), l.clone(), r.clone()]))),
            fact(cx("len", vec![list(vec![]), int(0)])),
            rule(cx("len", vec![list_t(vec![anon()], t.clone()), n.clone()]),
                 and(vec![call(cx("len", vec![t.clone(), m.clone()])), bip("unify", vec![n.clone(), func("add", vec![m.clone(), int(1)])])])),
            fact(cx("rev", vec![list(vec![]), l.clone(), l.clone()])),
            rule(cx("rev", vec![list_t(vec![h.clone()], t.clone()), l.clone(), r.clone()]), call(cx("rev", vec![t.clone(), list_t(vec![h.clone()], l.clone()), r.clone()]))),
            fact(cx("last", vec![list(vec![x.clone()]), x.clone()])),
            rule(cx("last", vec![list_t(vec![anon()], t.clone()), x.clone()]), call(cx("last", vec![t.clone(), x.clone()]))),
            rule(cx("both", vec![x.clone(), l.clone(), r.clone()]), and(vec![call(cx("mem", vec![x.clone(), l.clone()])), call(cx("mem", vec![x.clone(), r.clone()]))])),
            rule(cx("cnt", vec![l.clone(), n.clone()]), bip("count", vec![l.clone(), n.clone()])),
            rule(cx("apb", vec![l.clone(), r.clone(), x.clone()]), bip("append", vec![l.clone(), r.clone(), x.clone()])),
            rule(cx("pairs", vec![l.clone(), x.clone(), h.clone()]),
                 and(vec![call(cx("app", vec![var("$_A"), list_t(vec![x.clone(), h.clone()], var("$_B")), l.clone()]))])),
            rule(cx("nomem", vec![x.clone(), l.clone()]), not(call(cx("mem", vec![x.clone(), l.clone()])))),
            rule(cx("memcut", vec![x.clone(), l.clone()]), and(vec![call(cx("mem", vec![x.clone(), l.clone()])), bip("!", vec![])])),
        ]
    }
    fn elem(&mut self, depth: usize) -> Value {
        let r = self.rng.gen_range(0..100);
        if r < 62 || depth == 0 { atom(self.pick(&ATOMS)) }
        else if r < 72 { int(self.rng.gen_range(0..4)) }
        else if r < 82 { list(vec![]) }
        else if r < 92 { let n = self.rng.gen_range(1..=2); list((0..n).map(|_| self.elem(depth - 1)).collect()) }
        else { cx("f", vec![atom(self.pick(&ATOMS))]) }
    }
    fn ground_list(&mut self, max: usize) -> Value { let n = self.rng.gen_range(0..=max); list((0..n).map(|_| self.elem(1)).collect()) }
    fn lists(&mut self) -> (Value, Value) {
        let prog = Self::list_lib();
        let q = var("$Q"); let w = var("$W");
        let l1 = self.ground_list(4); let l2 = self.ground_list(3);
        let e = self.elem(1);
        let query = match self.rng.gen_range(0..16) {
            0 => cx("mem", vec![q, l1]),
            1 => cx("mem", vec![e, l1]),
            2 => cx("app", vec![l1, l2, q]),
            3 => cx("app", vec![q, w, l1]),
            4 => cx("app", vec![q, l2, l1]),
            5 => cx("len", vec![l1, q]),
            6 => cx("rev", vec![l1, list(vec![]), q]),
            7 => cx("last", vec![l1, q]),
            8 => cx("both", vec![q, l1, l2]),
            9 => cx("cnt", vec![l1, q]),
            10 => cx("apb", vec![l1, l2, q]),
            11 => cx("apb", vec![e, l1, q]),
            12 => cx("pairs", vec![l1, q, w]),
            13 => cx("nomem", vec![e, l1]),
            14 => cx("memcut", vec![q, l1]),
            _ => cx("mem", vec![list_t(vec![q], w), l1]),
        };
        (Value::Array(prog), query)
    }

    // ---------------------------------------------------------------- family 2: integers
    fn num_arg(&mut self) -> Value {
        let r = self.rng.gen_range(0..100);
        if r < 60 { var(self.pick(&["$X", "$Y"])) } else if r < 68 { var("$Z") } else { int(self.rng.gen_range(-2..5)) }
    }
    fn arith(&mut self) -> (Value, Value) {
        let mut prog: Vec<Value> = vec![];
        let k = self.rng.gen_range(2..=4);
        for i in 0..k { prog.push(fact(cx("n", vec![int(self.rng.gen_range(-1..4) + i)]))); }
        for _ in 0..self.rng.gen_range(1..=3) {
            let mut gs = vec![call(cx("n", vec![var("$X")]))];
            if self.rng.gen_bool(0.5) { gs.push(call(cx("n", vec![var("$Y")]))); } else { gs.push(bip("unify", vec![var("$Y"), int(self.rng.gen_range(0..3))])); }
            for _ in 0..self.rng.gen_range(1..=2) {
                let r = self.rng.gen_range(0..100);
                if r < 45 {
                    let f = self.pick(&["add", "subtract", "multiply"]).to_string();
                    let a = self.num_arg(); let b = self.num_arg();
                    let t = if self.rng.gen_bool(0.3) { func(&f, vec![a, b, int(self.rng.gen_range(1..3))]) } else { func(&f, vec![a, b]) };
                    if self.rng.gen_bool(0.8) { gs.push(bip("unify", vec![var("$Z"), t])); } else { gs.push(bip("unify", vec![t, var("$Z")])); }
                } else if r < 85 {
                    let op = self.pick(&["less_than", "less_than_or_equal", "greater_than", "greater_than_or_equal", "equal"]).to_string();
                    gs.push(bip(&op, vec![self.num_arg(), self.num_arg()]));
                } else if r < 93 { gs.push(bip("print", vec![var(self.pick(&VARS))])); }
                else { gs.push(not(bip("less_than", vec![var("$X"), int(self.rng.gen_range(0..3))]))); }
            }
            let h = if self.rng.gen_bool(0.5) { cx("v", vec![var("$X"), var("$Z")]) } else { cx("v", vec![var("$Y"), var("$X")]) };
            prog.push(rule(h, and(gs)));
        }
        let query = if self.rng.gen_bool(0.7) { cx("v", vec![var("$Q"), var("$W")]) } else { cx("v", vec![int(self.rng.gen_range(0..3)), var("$W")]) };
        (Value::Array(prog), query)
    }

    // ---------------------------------------------------------------- family 3: structured heads
    fn sterm(&mut self, depth: usize) -> Value {
        let r = self.rng.gen_range(0..100);
        if r < 30 { var(self.pick(&VARS)) }
        else if r < 55 || depth == 0 { atom(self.pick(&ATOMS)) }
        else if r < 60 { anon() }
        else if r < 75 { cx("f", vec![self.sterm(depth - 1)]) }
        else if r < 82 { cx("g", vec![self.sterm(depth - 1), self.sterm(depth - 1)]) }
        else if r < 90 { let n = self.rng.gen_range(0..=2); list((0..n).map(|_| self.sterm(depth - 1)).collect()) }
        else { let t = if self.rng.gen_bool(0.7) { var(self.pick(&VARS)) } else { anon() }; list_t(vec![self.sterm(depth - 1)], t) }
    }
    fn structured(&mut self) -> (Value, Value) {
        let mut prog: Vec<Value> = vec![];
        self.base_facts(&mut prog);
        for _ in 0..self.rng.gen_range(2..=4) { let a = self.sterm(2); let b = self.sterm(1); prog.push(fact(cx("e", vec![a, b]))); }
        for _ in 0..self.rng.gen_range(1..=3) {
            let h = cx("k", vec![self.sterm(1), self.sterm(1)]);
            let n = self.rng.gen_range(1..=3);
            let gs: Vec<Value> = (0..n).map(|_| {
                let r = self.rng.gen_range(0..100);
                if r < 50 { let a = self.sterm(1); let b = self.sterm(1); call(cx("e", vec![a, b])) }
                else if r < 70 { call(cx(self.pick(&["q", "r"]), vec![self.sterm(0)])) }
                else if r < 88 { let a = self.sterm(1); let b = self.sterm(1); bip("unify", vec![a, b]) }
                else { let a = self.sterm(1); let b = self.sterm(1); not(call(cx("e", vec![a, b]))) }
            }).collect();
            prog.push(rule(h, if gs.len() == 1 { gs[0].clone() } else { and(gs) }));
        }
        let qa = if self.rng.gen_bool(0.6) { var("$Q") } else { self.sterm(1) };
        let qb = if self.rng.gen_bool(0.6) { var("$W") } else { self.sterm(1) };
        let f = if self.rng.gen_bool(0.75) { "k" } else { "e" };
        (Value::Array(prog), cx(f, vec![qa, qb]))
    }

    // ---------------------------------------------------------------- family 5: multiplicity and lookup
    /// duplicate facts, ground goals proved several times, one functor with two arities, four- and five-goal
    /// conjunctions, clauses of two predicates interleaved, queries with a repeated variable or a constant
    fn multiplicity(&mut self) -> (Value, Value) {
        let mut prog: Vec<Value> = vec![];
        let n1 = self.rng.gen_range(2..=5);
        for _ in 0..n1 { let a = atom(self.pick(&ATOMS[..2])); prog.push(fact(cx("t", vec![a]))); }                    // duplicates likely
        let n2 = self.rng.gen_range(2..=4);
        for i in 0..n2 {
            let (a, b) = (atom(self.pick(&ATOMS)), atom(self.pick(&ATOMS)));
            prog.push(fact(cx("t", vec![a, b])));                                                                         // t/2 next to t/1
            if i == 0 { let a = atom(self.pick(&ATOMS)); prog.push(fact(cx("u", vec![a]))); }                             // interleaved with another predicate
        }
        prog.push(fact(cx("u", vec![atom(self.pick(&ATOMS))])));
        if self.rng.gen_bool(0.5) { prog.push(rule(cx("u", vec![var("$X")]), call(cx("t", vec![var("$X")])))); }
        for _ in 0..self.rng.gen_range(1..=3) {
            let k = self.rng.gen_range(2..=5);
            let gs: Vec<Value> = (0..k).map(|_| match self.rng.gen_range(0..100) {
                0..=29 => call(cx("t", vec![self.arg()])),
                30..=54 => call(cx("t", vec![self.arg(), self.arg()])),
                55..=74 => call(cx("u", vec![self.arg()])),
                75..=84 => call(cx("t", vec![atom(self.pick(&ATOMS[..2]))])),                                             // a ground goal, provable more than once
                85..=92 => bip("unify", vec![var(self.pick(&VARS)), self.arg()]),
                _ => or(vec![call(cx("t", vec![atom(self.pick(&ATOMS[..2]))])), call(cx("u", vec![self.arg()]))]),
            }).collect();
            let h = match self.rng.gen_range(0..3) { 0 => cx("m", vec![var("$X"), var("$Y")]), 1 => cx("m", vec![var("$X"), var("$X")]), _ => cx("m", vec![var("$Y"), atom(self.pick(&ATOMS))]) };
            prog.push(rule(h, and(gs)));
        }
        let query = match self.rng.gen_range(0..5) { 0 => cx("m", vec![var("$Q"), var("$W")]), 1 => cx("m", vec![var("$Q"), var("$Q")]), 2 => cx("m", vec![atom(self.pick(&ATOMS)), var("$W")]),
                                                    3 => cx("t", vec![var("$Q"), var("$Q")]), _ => cx("u", vec![var("$Q")]) };
        (Value::Array(prog), query)
    }

    fn program(&mut self) -> (usize, Value, Value) {
        let fam = match self.rng.gen_range(0..100) { 0..=24 => 0, 25..=41 => 1, 42..=54 => 2, 55..=71 => 3, 72..=84 => 4, _ => 5 };
        let (p, q) = match fam { 0 => self.stratified(5), 1 => self.lists(), 2 => self.arith(), 3 => self.structured(), 4 => self.stratified(22), _ => self.multiplicity() };
        (fam, p, q)
    }
}

const EVENT_BUDGET: usize = 2500;

/// Records one run: returns the trace lines after the `program` record.
fn record_run(prog: &Value, query: &Value) -> Vec<String> {
    let kb = build_kb(prog);
    start_query();
    let qt = tm_from_json(query);
    let qterms: Vec<Unifiable> = match build(&qt) { Unifiable::SComplex(v) => v, _ => vec![] };
    let q = make_query(qterms);
    let mut lines: Vec<String> = vec![];
    let sn = make_base_node(std::rc::Rc::new(q.clone()), &kb);
    let args: Vec<Tm> = match &q { Goal::ComplexGoal(Unifiable::SComplex(v)) => v[1..].iter().map(project).collect(), _ => vec![] };
    suiron::verif_hooks::take_events();
    capture::take();
    let mut asks = 0; let mut nones = 0; let mut events = 0;
    while nones < 2 {
        if asks >= 40 || events > EVENT_BUDGET { lines.push(json!({"e": "truncated"}).to_string()); break; }
        asks += 1;
        lines.push(json!({"e": "ask"}).to_string());
        suiron::verif_hooks::record(true);
        let r = std::panic::catch_unwind(std::panic::AssertUnwindSafe(|| next_solution(std::rc::Rc::clone(&sn)).map(|s| (*s).clone())));
        suiron::verif_hooks::record(false);
        let out_text = capture::take();
        let evs = suiron::verif_hooks::take_events();
        events += evs.len();
        if evs.len() > EVENT_BUDGET {            // one request alone is over the budget: keep its prefix
            lines.extend(evs.into_iter().take(EVENT_BUDGET));
            lines.push(json!({"e": "truncated"}).to_string());
            break;
        }
        lines.extend(evs);
        match r {
            Ok(Some(ss)) => {
                let ans = canon(&args.iter().map(|t| resolve(t, &ss)).collect::<Vec<_>>());
                if ans.iter().any(|t| contains_bad(t, "")) {
                    // the answer cannot be projected (a cyclic binding, a malformed list): recorded as it is
                    lines.push(json!({"e": "ret", "some": true, "ans": [{"k": "atom", "s": "<unprojectable answer>"}], "out": out_text}).to_string());
                } else {
                    lines.push(json!({"e": "ret", "some": true, "ans": ans.iter().map(tm_to_json).collect::<Vec<_>>(), "out": out_text}).to_string());
                }
            }
            Ok(None) => { nones += 1; lines.push(json!({"e": "ret", "some": false, "ans": [], "out": out_text}).to_string()); }
            Err(e) => {
                let msg = e.downcast_ref::<String>().cloned().or_else(|| e.downcast_ref::<&str>().map(|s| s.to_string())).unwrap_or_default();
                lines.push(json!({"e": "panic", "msg": msg, "out": out_text}).to_string());
                break;
            }
        }
    }
    lines
}

fn run_seed(seed: u64, idx: usize) -> u64 { seed.wrapping_mul(1_000_003).wrapping_add(idx as u64 * 7919 + 17) }

/// gen-trace-worker <out.ndjson> <seed> <start> <end>: appends runs start..end
pub fn worker(out: &str, seed: u64, start: usize, end: usize) -> i32 {
    capture::install();
    crate::syntax::install_panic_hook();
    let progress = Arc::new(AtomicUsize::new(0));
    let p2 = Arc::clone(&progress);
    std::thread::spawn(move || {
        let mut last = usize::MAX; let mut still = 0u64;
        loop {
            std::thread::sleep(std::time::Duration::from_millis(500));
            let cur = p2.load(Ordering::SeqCst);
            if cur == last { still += 1; } else { still = 0; last = cur; }
            if still >= 40 { std::process::exit(3); }      // 20 s without finishing a run
        }
    });
    let out = out.to_string();
    let h = std::thread::Builder::new().stack_size(256 << 20).spawn(move || {
        let mut f = std::fs::OpenOptions::new().append(true).create(true).open(&out).unwrap();
        for idx in start..end {
            let mut g = Gen { rng: StdRng::seed_from_u64(run_seed(seed, idx)) };
            let (fam, prog, query) = g.program();
            writeln!(f, "{}", json!({"e": "program", "run": idx, "family": fam, "prog": prog, "query": query})).unwrap();
            f.flush().unwrap();
            let lines = record_run(&prog, &query);
            for l in lines { writeln!(f, "{}", l).unwrap(); }
            f.flush().unwrap();
            progress.fetch_add(1, Ordering::SeqCst);
        }
    }).unwrap();
    match h.join() { Ok(_) => 0, Err(_) => 4 }
}

/// gen-trace <out.ndjson> <seed> <runs>
pub fn main(out: &str, seed: u64, runs: usize) -> i32 {
    let _ = std::fs::remove_file(out);
    std::fs::File::create(out).unwrap();
    let exe = std::env::current_exe().unwrap();
    let mut start = 0usize;
    let mut deaths = 0;
    while start < runs {
        let status = std::process::Command::new(&exe)
            .args(["gen-trace-worker", out, &seed.to_string(), &start.to_string(), &runs.to_string()])
            .stdout(std::process::Stdio::null())
            .status().expect("spawn gen-trace worker");
        if status.success() { break; }
        // the worker died in the middle of a run: the last `program` record has no complete run after it
        let text = std::fs::read_to_string(out).unwrap_or_default();
        let mut last_run: Option<usize> = None; let mut last_pos = 0usize; let mut pos = 0usize;
        for l in text.split_inclusive('\n') {
            if l.starts_with("{\"e\":\"program\"") {
                if let Ok(v) = serde_json::from_str::<Value>(l.trim_end()) { last_run = v["run"].as_u64().map(|x| x as usize); last_pos = pos; }
            }
            pos += l.len();
        }
        let how = match status.code() { Some(3) => "hang", _ => "crash" };
        match last_run {
            Some(r) => {
                // keep the program record only (a partial run may have been flushed), then the death event
                let keep_to = last_pos + text[last_pos..].find('\n').map(|i| i + 1).unwrap_or(text.len() - last_pos);
                let mut f = std::fs::File::create(out).unwrap();
                f.write_all(text[..keep_to].as_bytes()).unwrap();
                writeln!(f, "{}", json!({"e": how, "status": format!("{:?}", status)})).unwrap();
                start = r + 1;
            }
            None => { eprintln!("gen-trace: worker died before writing a run: {:?}", status); return 2; }
        }
        deaths += 1;
        if deaths > 200 { eprintln!("gen-trace: too many worker deaths"); return 2; }
    }
    let n = std::fs::read_to_string(out).unwrap_or_default().lines().filter(|l| l.starts_with("{\"e\":\"program\"")).count();
    eprintln!("gen-trace: {} runs written ({} worker deaths)", n, deaths);
    0
}

/// record <program.json> <out.ndjson>: records the run of one given program and query
pub fn record_one(program: &str, out: &str) -> i32 {
    capture::install();
    crate::syntax::install_panic_hook();
    let v: Value = serde_json::from_str(&std::fs::read_to_string(program).expect("program file")).expect("program json");
    let (prog, query) = (v["prog"].clone(), v["query"].clone());
    let out = out.to_string();
    let h = std::thread::Builder::new().stack_size(256 << 20).spawn(move || {
        let mut f = std::fs::File::create(&out).unwrap();
        writeln!(f, "{}", json!({"e": "program", "run": 0, "family": -1, "prog": prog, "query": query})).unwrap();
        f.flush().unwrap();
        for l in record_run(&prog, &query) { writeln!(f, "{}", l).unwrap(); }
    }).unwrap();
    match h.join() { Ok(_) => 0, Err(_) => 4 }
}
