//! Replay of Syntax.tla: canonical text parses and prints back (C19), a term
//! means the same in every placement (C20), parsed lists are well formed (C15),
//! and no input makes a parser panic (C18).

use crate::term::*;
use crate::Obs;
use serde_json::{json, Value};
use std::cell::RefCell;
use std::panic::{catch_unwind, AssertUnwindSafe};
use suiron::*;

thread_local! { pub static LAST_PANIC: RefCell<String> = RefCell::new(String::new()); }

pub fn install_panic_hook() {
    std::panic::set_hook(Box::new(|info| {
        let loc = info.location().map(|l| format!("{}:{}", l.file().rsplit('/').next().unwrap_or(""), l.line())).unwrap_or_default();
        let msg = info.payload().downcast_ref::<String>().cloned()
            .or_else(|| info.payload().downcast_ref::<&str>().map(|s| s.to_string())).unwrap_or_default();
        LAST_PANIC.with(|p| *p.borrow_mut() = format!("{} {}", loc, msg.chars().take(80).collect::<String>()));
    }));
}

// ------------------------------------------------------------ projections
pub fn project_goal(g: &Goal) -> Value {
    match g {
        Goal::ComplexGoal(u) => json!({"g": "call", "t": tm_to_json(&project(u))}),
        Goal::BuiltInGoal(b) => json!({"g": "bip", "f": b.functor,
            "a": b.terms.as_ref().map(|v| v.iter().map(|t| tm_to_json(&project(t))).collect::<Vec<_>>()).unwrap_or_default()}),
        Goal::OperatorGoal(op) => {
            let (k, gs) = match op { Operator::And(v) => ("and", v), Operator::Or(v) => ("or", v), Operator::Not(v) => ("not", v), Operator::Time(v) => ("time", v) };
            json!({"g": k, "gs": gs.iter().map(project_goal).collect::<Vec<_>>()})
        }
        Goal::Nil => json!({"g": "nil"}),
    }
}
/// normalise an expected goal (from the specification) to the same JSON shape
pub fn norm_goal(g: &Value) -> Value {
    match g["g"].as_str().unwrap_or("") {
        "call" => json!({"g": "call", "t": tm_to_json(&tm_from_json(&g["t"]))}),
        "bip" => json!({"g": "bip", "f": g["f"], "a": g["a"].as_array().unwrap().iter().map(|t| tm_to_json(&tm_from_json(t))).collect::<Vec<_>>()}),
        "nil" => json!({"g": "nil"}),
        k => json!({"g": k, "gs": g["gs"].as_array().unwrap().iter().map(norm_goal).collect::<Vec<_>>()}),
    }
}

// ------------------------------------------------------------ parser entries
pub const ENTRIES: [&str; 8] = ["term", "list", "complex", "function", "query", "subgoal", "goal", "rule"];

#[derive(Debug, Clone, PartialEq)]
pub enum Parsed { Term(Tm), Goal(Value), Rule(Value, Value), Err, Panic(String) }

pub fn parse_with(entry: &str, text: &str) -> Parsed {
    let r = catch_unwind(AssertUnwindSafe(|| match entry {
        "term" => parse_term(text).map(|u| Parsed::Term(project(&u))),
        "list" => parse_linked_list(text).map(|u| Parsed::Term(project(&u))),
        "complex" => parse_complex(text).map(|u| Parsed::Term(project(&u))),
        "function" => parse_function(text).map(|u| Parsed::Term(project(&u))),
        "query" => parse_query(text).map(|g| Parsed::Goal(project_goal(&g))),
        "subgoal" => parse_subgoal(text).map(|g| Parsed::Goal(project_goal(&g))),
        "goal" => generate_goal(text).map(|g| Parsed::Goal(project_goal(&g))),
        "rule" => parse_rule(text).map(|r| Parsed::Rule(tm_to_json(&project(&r.head)), project_goal(&r.body))),
        _ => Err("?".to_string()),
    }));
    match r {
        Ok(Ok(p)) => p,
        Ok(Err(_)) => Parsed::Err,
        Err(_) => Parsed::Panic(LAST_PANIC.with(|p| p.borrow().clone())),
    }
}

fn display_with(entry: &str, text: &str) -> Option<String> {
    catch_unwind(AssertUnwindSafe(|| match entry {
        "term" => parse_term(text).ok().map(|u| u.to_string()),
        "list" => parse_linked_list(text).ok().map(|u| u.to_string()),
        "complex" => parse_complex(text).ok().map(|u| u.to_string()),
        "function" => parse_function(text).ok().map(|u| u.to_string()),
        "subgoal" => parse_subgoal(text).ok().map(|g| g.to_string()),
        "goal" => generate_goal(text).ok().map(|g| g.to_string()),
        "rule" => parse_rule(text).ok().map(|r| r.to_string()),
        _ => None,
    })).ok().flatten()
}

fn show_parsed(p: &Parsed) -> String {
    match p {
        Parsed::Term(t) => show(t),
        Parsed::Goal(g) => crate::solve::show_goal(g),
        Parsed::Rule(h, b) => format!("{} :- {}", show(&tm_from_json(h)), crate::solve::show_goal(b)),
        Parsed::Err => "<error>".into(),
        Parsed::Panic(m) => format!("<PANIC {}>", m),
    }
}

/// One canonical text through one entry point: AST, print, re-parse.
fn roundtrip(obs: &mut Vec<Obs>, entry: &str, text: &str, want: &Parsed, check_print: bool) {
    let got = parse_with(entry, text);
    if &got != want {
        obs.push(Obs::bad("C19", &format!("parse-{}", entry), format!("parse_{}({:?}) :: documented {} / parsed {}", entry, text, show_parsed(want), show_parsed(&got))));
        return;
    }
    if check_print {
        match display_with(entry, text) {
            Some(s) if s == text => {
                if parse_with(entry, &s) == got { obs.push(Obs::ok("C19", &format!("roundtrip-{}", entry))); }
                else { obs.push(Obs::bad("C19", &format!("reparse-{}", entry), format!("{:?} re-parsed differently", text))); }
            }
            other => obs.push(Obs::bad("C19", &format!("print-{}", entry), format!("parse_{}({:?}) prints back as {:?}", entry, text, other))),
        }
    } else { obs.push(Obs::ok("C19", &format!("accept-{}", entry))); }
}

// ------------------------------------------------------------ infix arithmetic: same VALUE as the function form
/// `$X = 7, <goal>` solved on the engine: the value (and type) `$R` gets, or "fail" / "panic".
fn value_of_r(goal: Goal) -> String {
    let var = |n: &str| Unifiable::LogicVar { id: 0, name: n.to_string() };
    let head = Unifiable::SComplex(vec![Unifiable::Atom("t_".into()), var("$R")]);
    let bind_x = Goal::BuiltInGoal(BuiltInPredicate::new("unify".into(), Some(vec![var("$X"), Unifiable::SInteger(7)])));
    let body = Goal::OperatorGoal(Operator::And(vec![bind_x, goal]));
    let r = catch_unwind(AssertUnwindSafe(|| {
        let mut kb = KnowledgeBase::new();
        add_rules(&mut kb, vec![Rule { head, body }]);
        start_query();
        let q = make_query(vec![Unifiable::Atom("t_".into()), var("$Q")]);
        let qr = std::rc::Rc::new(q.clone());
        let sn = make_base_node(std::rc::Rc::clone(&qr), &kb);
        match next_solution(sn) {
            Some(ss) => match &q { Goal::ComplexGoal(Unifiable::SComplex(v)) => format!("{:?}", crate::term::resolve(&project(&v[1]), &ss)), _ => "?".into() },
            None => "fail".into(),
        }
    }));
    r.unwrap_or_else(|_| "panic".into())
}
/// Does the infix text parse (with this entry point) to a goal that gives `$R` the value the function form gives it?
fn same_value_as_function_form(entry: &str, text: &str, ast: &Value) -> Option<bool> {
    let parsed = catch_unwind(AssertUnwindSafe(|| match entry { "subgoal" => parse_subgoal(text).ok(), _ => generate_goal(text).ok() })).ok()??;
    let reference = crate::solve::build_goal(ast);
    let want = value_of_r(reference);
    if want == "panic" { return None; }
    Some(value_of_r(parsed) == want)
}
/// Alternative surface form of a goal: it must parse to the documented goal -- or, for `=` with infix
/// arithmetic, at least to a goal with the same value (a parser that folds `7 + 0` keeps C12 and C19)
fn alt_form(obs: &mut Vec<Obs>, entry: &str, text: &str, want: &Parsed, ast: &Value) {
    let got = parse_with(entry, text);
    if &got == want { obs.push(Obs::ok("C19", &format!("accept-{}", entry))); return; }
    let arith = ast["g"] == "bip" && ast["f"] == "unify" && ast["a"].as_array().map_or(false, |a| a.iter().any(|t| t["k"] == "fn"));
    if arith && matches!(got, Parsed::Goal(_)) {
        if let Some(true) = same_value_as_function_form(entry, text, ast) { obs.push(Obs::ok("C19", &format!("accept-{}-same-value", entry))); return; }
    }
    obs.push(Obs::bad("C19", &format!("parse-{}", entry), format!("parse_{}({:?}) :: documented {} / parsed {}{}", entry, text, show_parsed(want), show_parsed(&got),
        if arith { " (and the parsed goal does not give $R the value of the function form)" } else { "" })));
}

// ------------------------------------------------------------ C20 contexts
fn sub_of(ctx: &str, p: &Parsed) -> Option<Tm> {
    let arg = |t: &Tm, i: usize| -> Option<Tm> { match t { Tm::Cx(_, a) | Tm::Fn(_, a) => a.get(i).cloned(), Tm::List(a, _) => a.get(i).cloned(), _ => None } };
    let garg = |g: &Value, i: usize| -> Option<Tm> {
        match g["g"].as_str()? { "call" => arg(&tm_from_json(&g["t"]), i), "bip" => g["a"].as_array()?.get(i).map(tm_from_json), _ => None } };
    match (ctx, p) {
        ("alone", Parsed::Term(t)) => Some(t.clone()),
        ("complex-arg", Parsed::Term(t)) | ("list-first", Parsed::Term(t)) => arg(t, 0),
        ("complex-last", Parsed::Term(t)) | ("list-last", Parsed::Term(t)) => arg(t, 1),
        ("builtin-arg", Parsed::Goal(g)) | ("infix-left", Parsed::Goal(g)) | ("query-arg", Parsed::Goal(g)) => garg(g, 0),
        ("infix-right", Parsed::Goal(g)) | ("cmp-right", Parsed::Goal(g)) => garg(g, 1),
        ("rule-head", Parsed::Rule(h, _)) => arg(&tm_from_json(h), 0),
        ("rule-body", Parsed::Rule(_, b)) => garg(b, 0),
        ("complex-arg-compact", Parsed::Term(t)) | ("list-first-compact", Parsed::Term(t)) => arg(t, 0),
        ("complex-last-compact", Parsed::Term(t)) | ("complex-mid", Parsed::Term(t)) | ("complex-mid-compact", Parsed::Term(t))
        | ("list-last-compact", Parsed::Term(t)) | ("list-mid", Parsed::Term(t)) | ("list-before-tail", Parsed::Term(t))
        | ("function-arg", Parsed::Term(t)) | ("function-arg-compact", Parsed::Term(t)) => arg(t, 1),
        ("after-float", Parsed::Term(t)) | ("after-dotted-atom", Parsed::Term(t)) | ("after-quoted", Parsed::Term(t))
        | ("list-after-float", Parsed::Term(t)) => arg(t, 1),
        ("before-float", Parsed::Term(t)) => arg(t, 0),
        ("builtin-after-float", Parsed::Goal(g)) => garg(g, 1),
        ("builtin-last", Parsed::Goal(g)) | ("builtin-last-compact", Parsed::Goal(g))
        | ("query-last", Parsed::Goal(g)) | ("query-last-compact", Parsed::Goal(g)) => garg(g, 1),
        ("nested-arg", Parsed::Term(t)) => arg(t, 0).and_then(|x| arg(&x, 0)),
        ("nested-last-compact", Parsed::Term(t)) => arg(t, 1).and_then(|x| arg(&x, 1)),
        ("rule-head-last-compact", Parsed::Rule(h, _)) => arg(&tm_from_json(h), 1),
        ("rule-body-last-compact", Parsed::Rule(_, b)) => garg(b, 1),
        _ => None,
    }
}
fn zero_ids(t: &Tm) -> Tm {
    match t {
        Tm::Var(_, n) => Tm::Var(0, n.clone()),
        Tm::Cx(f, a) => Tm::Cx(f.clone(), a.iter().map(zero_ids).collect()),
        Tm::Fn(f, a) => Tm::Fn(f.clone(), a.iter().map(zero_ids).collect()),
        Tm::List(a, tl) => Tm::List(a.iter().map(zero_ids).collect(), tl.as_ref().map(|x| Box::new(zero_ids(x)))),
        o => o.clone(),
    }
}

fn contexts(obs: &mut Vec<Obs>, case: &Value, text: &str) {
    let alone = parse_with("term", text);
    let alone_t = match &alone { Parsed::Term(t) => Some(zero_ids(t)), _ => None };
    for c in case["contexts"].as_array().unwrap() {
        let ctx = c["ctx"].as_str().unwrap();
        let entry = c["entry"].as_str().unwrap();
        let full = c["text"].as_str().unwrap();
        let p = parse_with(entry, full);
        let sub = sub_of(ctx, &p).map(|t| zero_ids(&t));
        let same = match (&alone_t, &sub) { (Some(x), Some(y)) => x == y, (None, None) => matches!(p, Parsed::Err) || sub.is_none(), _ => false };
        if let Parsed::Panic(m) = &p { obs.push(Obs::bad("C18", &format!("panic-{}", entry), format!("parse_{}({:?}) panicked: {}", entry, full, m))); continue; }
        if same && !(alone_t.is_none() && !matches!(p, Parsed::Err)) { obs.push(Obs::ok("C20", ctx)); }
        else {
            obs.push(Obs::bad("C20", ctx, format!("term text {:?}: alone {} / as {} in {:?} {}", text, show_parsed(&alone), ctx, full,
                sub.as_ref().map(show).unwrap_or_else(|| show_parsed(&p)))));
        }
    }
}

// ------------------------------------------------------------ drivers
pub fn props_of(case: &Value) -> Vec<&'static str> {
    match case["t"].as_str().unwrap_or("") {
        "syn-term" => vec!["C19", "C20", "C15", "C18"],
        "syn-raw" => vec!["C20", "C18"],
        "syn-goal" | "syn-rule" => vec!["C19", "C18", "C12", "C14"],
        "syn-altgoal" => vec!["C12", "C18"],
        "syn-groupgoal" => vec!["C19", "C18"],
        _ => vec!["C18"],
    }
}

pub fn replay(case: &Value) -> Vec<Obs> {
    let text = case["text"].as_str().unwrap_or("");
    let mut obs = vec![];
    match case["t"].as_str().unwrap_or("") {
        "syn-term" => {
            let ast = tm_from_json(&case["ast"]);
            let want = Parsed::Term(ast.clone());
            roundtrip(&mut obs, "term", text, &want, true);
            match &ast {
                Tm::Cx(..) => { roundtrip(&mut obs, "complex", text, &want, true);
                                roundtrip(&mut obs, "subgoal", text, &Parsed::Goal(json!({"g": "call", "t": tm_to_json(&ast)})), true); }
                Tm::List(..) => {
                    roundtrip(&mut obs, "list", text, &want, true);
                    match parse_with("list", text) { Parsed::Term(t) if !contains_bad(&t, "list") && t == ast => obs.push(Obs::ok("C15", "parsed-list")),
                                                     other => obs.push(Obs::bad("C15", "parsed-list", format!("{:?} parsed as {}", text, show_parsed(&other)))) }
                }
                Tm::Fn(..) => roundtrip(&mut obs, "function", text, &want, true),
                _ => {}
            }
            let alt = case["alt"].as_str().unwrap_or("");
            if !alt.is_empty() { roundtrip(&mut obs, "term", alt, &want, false); }
            contexts(&mut obs, case, text);
        }
        "syn-raw" => contexts(&mut obs, case, text),
        "syn-goal" => {
            let want = Parsed::Goal(norm_goal(&case["ast"]));
            roundtrip(&mut obs, "goal", text, &want, true);
            let k = case["ast"]["g"].as_str().unwrap_or("");
            if k == "call" || k == "bip" || k == "not" { roundtrip(&mut obs, "subgoal", text, &want, true); }
            let alt = case["alt"].as_str().unwrap_or("");
            if !alt.is_empty() {
                let before = obs.len();
                alt_form(&mut obs, "goal", alt, &want, &case["ast"]);
                alt_form(&mut obs, "subgoal", alt, &want, &case["ast"]);
                // the infix forms belong to C14 (comparison) and C12 (arithmetic) as well
                let f = case["ast"]["f"].as_str().unwrap_or("");
                let owner: Option<&'static str> = if f == "unify" { Some("C12") } else if k == "bip" { Some("C14") } else { None };
                if let Some(owner) = owner {
                    let bad: Vec<String> = obs[before..].iter().filter(|o| !o.ok).map(|o| o.detail.clone()).collect();
                    if bad.is_empty() { obs.push(Obs::ok(owner, "infix-form")); } else { obs.push(Obs::bad(owner, "infix-form", bad.join(" | "))); }
                }
            }
        }
        "syn-altgoal" => {
            // infix text only: must parse to the function term with exactly these operands (C12)
            let want = Parsed::Goal(norm_goal(&case["ast"]));
            let mut tmp = vec![];
            alt_form(&mut tmp, "goal", text, &want, &case["ast"]);
            alt_form(&mut tmp, "subgoal", text, &want, &case["ast"]);
            let bad: Vec<String> = tmp.iter().filter(|o| !o.ok).map(|o| o.detail.clone()).collect();
            if bad.is_empty() { obs.push(Obs::ok("C12", "infix-form")); } else { obs.push(Obs::bad("C12", "infix-form", bad.join(" | "))); }
            let mut n = 0; let mut b2 = vec![]; try_all(text, &mut n, &mut b2); finish_c18(&mut obs, n, b2);
        }
        "syn-groupgoal" => {
            // a goal tree written with grouping parentheses (two ways): as a goal and as the body of a rule
            let ast = norm_goal(&case["ast"]);
            let alt = case["alt"].as_str().unwrap_or("");
            for tx in [text, alt] {
                if tx.is_empty() { continue; }
                roundtrip(&mut obs, "goal", tx, &Parsed::Goal(ast.clone()), false);
                let head = json!({"k": "cx", "s": "h", "a": [{"k": "var", "n": 0, "s": "$X"}]});
                roundtrip(&mut obs, "rule", &format!("h($X) :- {}.", tx), &Parsed::Rule(tm_to_json(&tm_from_json(&head)), ast.clone()), false);
            }
            let mut n = 0; let mut b2 = vec![]; try_all(text, &mut n, &mut b2); try_all(alt, &mut n, &mut b2); finish_c18(&mut obs, n, b2);
        }
        "syn-rule" => {
            let want = Parsed::Rule(tm_to_json(&tm_from_json(&case["ast"]["head"])), norm_goal(&case["ast"]["body"]));
            roundtrip(&mut obs, "rule", text, &want, true);
            let alt = case["alt"].as_str().unwrap_or("");
            if !alt.is_empty() { roundtrip(&mut obs, "rule", alt, &want, false); }
        }
        "syn-string" => { let mut n = 0; let mut bad = vec![]; try_all(text, &mut n, &mut bad); finish_c18(&mut obs, n, bad); }
        "syn-family" => {
            let alpha: Vec<String> = case["alphabet"].as_array().unwrap().iter().map(|x| x.as_str().unwrap().to_string()).collect();
            let extra = case["extra"].as_u64().unwrap_or(1);
            let mut n = 0; let mut bad = vec![];
            for x in &alpha {
                let s1 = format!("{}{}", text, x);
                try_all(&s1, &mut n, &mut bad);
                if extra >= 2 { for y in &alpha { try_all(&format!("{}{}", s1, y), &mut n, &mut bad); } }
            }
            finish_c18(&mut obs, n, bad);
        }
        "syn-seed" => {
            let alpha: Vec<String> = case["alphabet"].as_array().unwrap().iter().map(|x| x.as_str().unwrap().to_string()).collect();
            let depth = case["depth"].as_u64().unwrap_or(1);
            let mut n = 0; let mut bad = vec![];
            let firsts = mutations(text, &alpha, true);
            for (i, m) in firsts.iter().enumerate() {
                try_all(m, &mut n, &mut bad);
                if depth >= 2 && i % 7 == 3 { for m2 in mutations(m, &alpha, false) { try_all(&m2, &mut n, &mut bad); } }
            }
            finish_c18(&mut obs, n, bad);
        }
        other => obs.push(Obs::bad("TOOL", "unknown-syntax-case", other.to_string())),
    }
    // a panic anywhere on canonical text is also a C18 matter
    if matches!(case["t"].as_str(), Some("syn-term") | Some("syn-goal") | Some("syn-rule")) {
        let mut n = 0; let mut bad = vec![]; try_all(text, &mut n, &mut bad); finish_c18(&mut obs, n, bad);
    }
    obs
}

fn try_all(text: &str, n: &mut usize, bad: &mut Vec<(String, String, String)>) {
    for e in ENTRIES.iter() {
        *n += 1;
        if let Parsed::Panic(m) = parse_with(e, text) { if bad.len() < 400 { bad.push((e.to_string(), text.to_string(), m)); } }
    }
}
fn finish_c18(obs: &mut Vec<Obs>, n: usize, bad: Vec<(String, String, String)>) {
    if bad.is_empty() { obs.push(Obs::ok("C18", &format!("no-panic*{}", n))); return; }
    // one observation per distinct panic site
    let mut seen: Vec<String> = vec![];
    for (e, t, m) in bad {
        let site = m.split(' ').next().unwrap_or("").to_string();
        let key = format!("{}@{}", e, site);
        if seen.contains(&key) { continue; }
        seen.push(key);
        obs.push(Obs::bad("C18", "panic", format!("parse entry `{}` on input {:?} panicked at {}", e, t, m)));
    }
}

/// All single mutations of a text: delete, duplicate, swap neighbours, truncate,
/// and (full set) insert / replace by every alphabet symbol.
pub fn mutations(text: &str, alpha: &[String], full: bool) -> Vec<String> {
    let ch: Vec<char> = text.chars().collect();
    let mut out = vec![];
    let s = |v: Vec<char>| v.into_iter().collect::<String>();
    for i in 0..ch.len() {
        let mut d = ch.clone(); d.remove(i); out.push(s(d));
        let mut d = ch.clone(); d.insert(i, ch[i]); out.push(s(d));
        if i + 1 < ch.len() { let mut d = ch.clone(); d.swap(i, i + 1); out.push(s(d)); }
        out.push(s(ch[..i].to_vec()));
        if full {
            for a in alpha {
                let ac: Vec<char> = a.chars().collect();
                let mut d = ch.clone(); d.splice(i..i, ac.clone()); out.push(s(d));
                let mut d = ch.clone(); d.splice(i..i + 1, ac); out.push(s(d));
            }
        }
    }
    if full { for a in alpha { out.push(format!("{}{}", text, a)); } }
    out
}
