//! `gen-unify-trace`: sessions of unifications over randomly generated terms (deeper and wider than
//! the exhaustive universes of MC_Unify) run on the real `Unifiable::unify`, recorded as ndjson for
//! validation by TraceUnify.tla.  Each session starts from the empty substitution set and feeds the
//! result of one unification into the next ("a substitution produced by earlier unifications").
//!
//!   session   nvars
//!   try       l, r                       written (and flushed) before the engine is called
//!   res       ok, vals, cycle, anon      the outcome: success, resolved canonical value of every
//!             rok, rvals                 variable, a cyclic binding, a variable bound to $_;
//!                                        and the same for r = l from the same bindings (C07)
//!   panic / crash / hang                 the engine did not return

use crate::term::*;
use crate::unify::run_session;
use rand::rngs::StdRng;
use rand::{Rng, SeedableRng};
use serde_json::{json, Value};
use std::io::Write;
use std::rc::Rc;
use std::sync::atomic::{AtomicUsize, Ordering};
use std::sync::Arc;
use suiron::*;

// the replay driver's names for ids 1..; names REPEAT (ids 4.. reuse $X $Y $Z): two variables of different clauses may carry the same name
const NAMES: [&str; 9] = ["$X", "$Y", "$Z", "$X", "$Y", "$Z", "$X", "$Y", "$Z"];
struct Gen { rng: StdRng, nvars: usize }
impl Gen {
    fn var(&mut self) -> Tm { let i = self.rng.gen_range(1..=self.nvars); Tm::Var(i, NAMES[i - 1].to_string()) }
    fn atom(&mut self) -> Tm { Tm::Atom(["a", "b", "c"][self.rng.gen_range(0..3)].to_string()) }
    fn term(&mut self, depth: usize) -> Tm {
        let r = self.rng.gen_range(0..100);
        if r < 26 { self.var() }
        else if r < 44 { self.atom() }
        else if r < 49 { tm_of_i64(self.rng.gen_range(0..3)) }
        else if r < 52 { tm_of_f64(1.5) }
        else if r < 58 { Tm::Anon }
        else if depth == 0 { if self.rng.gen_bool(0.5) { self.var() } else { self.atom() } }
        else if r < 69 { Tm::Cx("f".into(), vec![self.term(depth - 1)]) }
        else if r < 78 { Tm::Cx("g".into(), vec![self.term(depth - 1), self.term(depth - 1)]) }
        else if r < 80 { Tm::Cx("h".into(), vec![]) }
        else { self.list(depth) }
    }
    fn list(&mut self, depth: usize) -> Tm {
        let n = self.rng.gen_range(0..=3);
        let els: Vec<Tm> = (0..n).map(|_| self.term(depth.saturating_sub(1))).collect();
        let r = self.rng.gen_range(0..100);
        let tail = if n == 0 || r < 62 { None } else if r < 92 { Some(Box::new(self.var())) } else { Some(Box::new(Tm::Anon)) };
        Tm::List(els, tail)
    }
    /// a term related to `t`: variables instantiated, subterms generalised, now and then a constant changed
    fn related(&mut self, t: &Tm, depth: usize) -> Tm {
        let r = self.rng.gen_range(0..100);
        if r < 12 { return self.var(); }
        if r < 16 { return Tm::Anon; }
        match t {
            Tm::Var(..) => if r < 55 { t.clone() } else { self.term(depth.min(1)) },
            Tm::Atom(_) => if r < 90 { t.clone() } else { self.atom() },
            Tm::Cx(f, a) => Tm::Cx(f.clone(), a.iter().map(|x| self.related(x, depth.saturating_sub(1))).collect()),
            Tm::List(a, tl) => {
                let mut els: Vec<Tm> = a.iter().map(|x| self.related(x, depth.saturating_sub(1))).collect();
                let r2 = self.rng.gen_range(0..100);
                if r2 < 22 && !els.is_empty() {
                    // cut the list somewhere and put a tail variable there
                    let k = self.rng.gen_range(0..els.len());
                    els.truncate(k.max(1));
                    return Tm::List(els, Some(Box::new(if self.rng.gen_bool(0.85) { self.var() } else { Tm::Anon })));
                }
                match tl {
                    None => Tm::List(els, None),
                    Some(tv) => {
                        if r2 < 50 { Tm::List(els, Some(tv.clone())) }
                        else if r2 < 75 { let extra = self.rng.gen_range(0..=2); for _ in 0..extra { let e = self.term(1); els.push(e); } Tm::List(els, None) }
                        else { Tm::List(els, Some(Box::new(self.var()))) }
                    }
                }
            }
            other => other.clone(),
        }
    }
    fn pair(&mut self, step: usize) -> (Tm, Tm) {
        // later steps of a session: variables that earlier steps bound (to compound terms, to each other)
        // are unified with each other more often
        if step >= 1 && self.rng.gen_range(0..100) < 12 + 8 * step.min(3) { return (self.var(), self.var()); }
        let a = self.term(3);
        let b = if self.rng.gen_bool(0.6) { self.related(&a, 3) } else { self.term(3) };
        let r = self.rng.gen_range(0..100);
        // now and then: plain variable against a term / another variable (aliasing chains)
        if r < 12 { (self.var(), b) } else if r < 20 { (a, self.var()) } else if r < 26 { (self.var(), self.var()) }
        else if self.rng.gen_bool(0.5) { (a, b) } else { (b, a) }
    }
}

fn run_seed(seed: u64, idx: usize) -> u64 { seed.wrapping_mul(2_000_003).wrapping_add(idx as u64 * 104_729 + 5) }

fn vals_json(v: &[Tm]) -> Vec<Value> {
    v.iter().map(|t| if contains_bad(t, "") { json!({"k": "atom", "s": "<unprojectable>"}) } else { tm_to_json(t) }).collect()
}

pub fn worker(out: &str, seed: u64, start: usize, end: usize) -> i32 {
    crate::capture::install();
    crate::syntax::install_panic_hook();
    let progress = Arc::new(AtomicUsize::new(0));
    let p2 = Arc::clone(&progress);
    std::thread::spawn(move || {
        let mut last = usize::MAX; let mut still = 0u64;
        loop {
            std::thread::sleep(std::time::Duration::from_millis(500));
            let cur = p2.load(Ordering::SeqCst);
            if cur == last { still += 1; } else { still = 0; last = cur; }
            if still >= 30 { std::process::exit(3); }
        }
    });
    let out = out.to_string();
    let h = std::thread::Builder::new().stack_size(64 << 20).spawn(move || {
        let mut f = std::fs::OpenOptions::new().append(true).create(true).open(&out).unwrap();
        for idx in start..end {
            let mut rng = StdRng::seed_from_u64(run_seed(seed, idx));
            let nvars = rng.gen_range(2..=6);
            let steps = rng.gen_range(1..=5);
            let mut g = Gen { rng, nvars };
            let vars: Vec<Tm> = (1..=nvars).map(|i| Tm::Var(i, NAMES[i - 1].to_string())).collect();
            writeln!(f, "{}", json!({"e": "session", "run": idx, "nvars": nvars})).unwrap();
            let mut ss: Rc<SubstitutionSet<'static>> = Rc::new(vec![]);
            for step in 0..steps {
                let (l, r) = g.pair(step);
                writeln!(f, "{}", json!({"e": "try", "l": tm_to_json(&l), "r": tm_to_json(&r)})).unwrap();
                f.flush().unwrap();
                let (lu, ru) = (build(&l), build(&r));
                let o = run_session(&[(lu.clone(), ru.clone())], Rc::clone(&ss), &vars);
                let o2 = run_session(&[(ru.clone(), lu.clone())], Rc::clone(&ss), &vars);
                if o.status == "panic" || o2.status == "panic" {
                    writeln!(f, "{}", json!({"e": "panic", "msg": format!("{} {}", o.note, o2.note)})).unwrap();
                    break;
                }
                writeln!(f, "{}", json!({"e": "res", "ok": o.status == "ok", "vals": vals_json(&o.res),
                                         "cycle": o.cycle || o.res.iter().any(|t| contains_bad(t, "cycle")), "anon": o.anon_bound,
                                         "rok": o2.status == "ok", "rvals": vals_json(&o2.res),
                                         "rcycle": o2.cycle || o2.res.iter().any(|t| contains_bad(t, "cycle"))})).unwrap();
                if o.status == "ok" {
                    // continue from the bindings this unification returned
                    let r3 = std::panic::catch_unwind(std::panic::AssertUnwindSafe(|| lu.unify(&ru, &ss).map(|s| (*s).clone())));
                    if let Ok(Some(s)) = r3 { ss = Rc::new(s); }
                    if o.cycle { break; }
                }
            }
            f.flush().unwrap();
            progress.fetch_add(1, Ordering::SeqCst);
        }
    }).unwrap();
    match h.join() { Ok(_) => 0, Err(_) => 4 }
}

/// gen-unify-trace <out.ndjson> <seed> <sessions>
pub fn main(out: &str, seed: u64, runs: usize) -> i32 {
    let _ = std::fs::remove_file(out);
    std::fs::File::create(out).unwrap();
    let exe = std::env::current_exe().unwrap();
    let mut start = 0usize;
    let mut deaths = 0;
    while start < runs {
        let status = std::process::Command::new(&exe)
            .args(["gen-unify-worker", out, &seed.to_string(), &start.to_string(), &runs.to_string()])
            .stdout(std::process::Stdio::null())
            .status().expect("spawn gen-unify worker");
        if status.success() { break; }
        let text = std::fs::read_to_string(out).unwrap_or_default();
        let mut last_run: Option<usize> = None;
        for l in text.lines() {
            if l.starts_with("{\"e\":\"session\"") {
                if let Ok(v) = serde_json::from_str::<Value>(l) { last_run = v["run"].as_u64().map(|x| x as usize); }
            }
        }
        let how = match status.code() { Some(3) => "hang", _ => "crash" };
        let mut f = std::fs::OpenOptions::new().append(true).open(out).unwrap();
        if !text.ends_with('\n') && !text.is_empty() { writeln!(f).unwrap(); }
        writeln!(f, "{}", json!({"e": how, "status": format!("{:?}", status)})).unwrap();
        match last_run { Some(r) => start = r + 1, None => { eprintln!("gen-unify-trace: worker died at once: {:?}", status); return 2; } }
        deaths += 1;
        if deaths > 500 { eprintln!("gen-unify-trace: too many worker deaths"); return 2; }
    }
    let n = std::fs::read_to_string(out).unwrap_or_default().lines().filter(|l| l.starts_with("{\"e\":\"session\"")).count();
    eprintln!("gen-unify-trace: {} sessions written ({} worker deaths)", n, deaths);
    0
}
