//! Replay of Session.tla histories: several queries in one process, built with
//! the query constructors, run with next_solution / solve / solve_all, the
//! query timer firing at a point chosen by the specification (C22, C23).

use crate::capture;
use crate::solve::{build_kb, render, show_prog};
use crate::term::*;
use crate::Obs;
use serde_json::Value;
use std::panic::{catch_unwind, AssertUnwindSafe};
use std::rc::Rc;
use suiron::*;

pub fn props_of(_case: &Value) -> Vec<&'static str> { vec!["C22", "C23", "C05"] }

const TIMEOUT_PREFIX: &str = "Query timed out";

pub fn answer_text(qt: &Tm, ans: &[Tm]) -> String {
    let mut parts = vec![];
    if let Tm::Cx(_, args) = qt {
        for (i, a) in args.iter().enumerate() {
            if let Tm::Var(_, name) = a { parts.push(format!("{} = {}", name, render(&ans[i]))); }
        }
    }
    parts.join(", ")
}

/// Every history is run twice: with each of the two query constructors of the crate
/// (`make_query` on terms, `parse_query` on the query's source text), each followed by `make_base_node`.
pub fn replay(case: &Value) -> Vec<Obs> {
    let mut obs = replay_with(case, "make_query");
    let second = replay_with(case, "parse_query");
    // report each property once: ok only if both runs are ok
    for o in second {
        if !o.ok { obs.retain(|x| !(x.prop == o.prop && x.ok)); if !obs.iter().any(|x| x.prop == o.prop && !x.ok) { obs.push(o); } }
    }
    obs
}

/// the program with every atom argument renamed: same predicates, other answers
fn decoy_prog(prog: &Value) -> Value {
    fn ren(v: &Value) -> Value {
        match v {
            Value::Object(m) => {
                if m.get("k").and_then(|k| k.as_str()) == Some("atom") { return serde_json::json!({"k": "atom", "s": format!("decoy_{}", m["s"].as_str().unwrap_or(""))}); }
                Value::Object(m.iter().map(|(k, x)| (k.clone(), ren(x))).collect())
            }
            Value::Array(a) => Value::Array(a.iter().map(ren).collect()),
            o => o.clone(),
        }
    }
    ren(prog)
}

fn replay_with(case: &Value, ctor: &str) -> Vec<Obs> {
    // an EARLIER knowledge base in the same process (and in the same variable): same predicate names, other facts;
    // every query of the plan is first run against it -- the history proper must not be affected
    let mut kb = build_kb(&decoy_prog(&case["prog"]));
    for ep in case["plan"].as_array().unwrap() {
        let qt = tm_from_json(&ep["query"]);
        if let Unifiable::SComplex(v) = build(&qt) {
            start_query();
            let q = make_query(v);
            let sn = make_base_node(Rc::new(q), &kb);
            let _ = catch_unwind(AssertUnwindSafe(|| solve_all(sn)));
            capture::take();
        }
    }
    kb = build_kb(&case["prog"]);
    let plan = case["plan"].as_array().unwrap();
    let reports = case["reports"].as_array().unwrap();
    let mut obs = vec![];
    let mut ri = 0;
    let mut history = String::new();
    start_query();                                   // a clean process state at the start of the history
    suiron::verif_hooks::arm_virtual_timer(0);
    let mut all_ok = true;
    let mut c23_ok = true;
    let mut first_bad = String::new();
    let mut spent: Vec<(usize, String, Rc<std::cell::RefCell<SolutionNode>>)> = vec![];
    for (ei, ep) in plan.iter().enumerate() {
        let qt = tm_from_json(&ep["query"]);
        let qterms: Vec<Unifiable> = match build(&qt) { Unifiable::SComplex(v) => v, _ => vec![] };
        // ONLY the query constructors: make_query / parse_query, then make_base_node
        let qtext = show(&qt).replace("_0", "");
        let query = if ctor == "parse_query" {
            match catch_unwind(AssertUnwindSafe(|| parse_query(&qtext))) {
                Ok(Ok(g)) => g,
                Ok(Err(e)) => return vec![Obs::bad("C22", "history", format!("parse_query({:?}) was rejected: {}", qtext, e))],
                Err(_) => return vec![Obs::bad("C22", "history", format!("parse_query({:?}) panicked", qtext))],
            }
        } else { make_query(qterms) };
        let q = Rc::new(query.clone());
        let args: Vec<Tm> = match &*q { Goal::ComplexGoal(Unifiable::SComplex(v)) => v[1..].iter().map(project).collect(), _ => vec![] };
        let sn = make_base_node(Rc::clone(&q), &kb);
        let mut exhausted = false;          // this query has reported "no more" (and its own timer never fired)
        let mut own_timer_fired = false;
        history.push_str(&format!(" | {} ?- {}:", ctor, qtext));
        for call in ep["calls"].as_array().unwrap() {
            let mode0 = call["mode"].as_str().unwrap();
            // "ssolve" / "sall": the application calls stop_query() first (public API); solve() / solve_all() clear the flag
            if mode0 == "ssolve" || mode0 == "sall" { stop_query(); }
            let mode = match mode0 { "ssolve" => "solve", "sall" => "all", m => m };
            let fire = call["fire"].as_i64().unwrap_or(0);
            let want = &reports[ri]; ri += 1;
            debug_assert_eq!(want["ep"].as_u64().unwrap() as usize, ei + 1);
            let constrained = want["constrained"].as_bool().unwrap_or(false);
            let wkind = want["kind"].as_str().unwrap();
            let wans: Vec<Tm> = want["ans"].as_array().unwrap().iter().map(tm_from_json).collect();
            let wlist: Vec<Vec<Tm>> = want["list"].as_array().unwrap().iter().map(|l| l.as_array().unwrap().iter().map(tm_from_json).collect()).collect();
            let wto = want["timeout"].as_bool().unwrap();
            capture::take();
            let (ok, got): (bool, String) = match mode {
                "next" => {
                    let r = catch_unwind(AssertUnwindSafe(|| next_solution(Rc::clone(&sn)).map(|s| (*s).clone())));
                    match r {
                        Ok(Some(ss)) => { let ans = canon(&args.iter().map(|t| resolve(t, &ss)).collect::<Vec<_>>());
                                          (wkind == "ans" && ans == wans, format!("({})", show_vec(&ans))) }
                        Ok(None) => (wkind == "none", "none".into()),
                        Err(_) => (false, "PANIC".into()),
                    }
                }
                "solve" => {
                    suiron::verif_hooks::arm_virtual_timer(fire);
                    let r = catch_unwind(AssertUnwindSafe(|| solve(Rc::clone(&sn))));
                    suiron::verif_hooks::arm_virtual_timer(0);
                    match r {
                        Ok(s) => {
                            let ok = if s.starts_with(TIMEOUT_PREFIX) { wkind == "timeout" }
                                     else if s == "No more." { wkind == "none" }
                                     else { wkind == "ans" && s == answer_text(&qt, &wans) };
                            // C23: solve reports the query's next answer, `No more.` or the timeout message -- nothing else
                            if constrained && !ok { c23_ok = false; }
                            // ... and never a timeout when its own timer did not fire -- also on a query one of whose
                            // earlier calls timed out (the answers of such a call are not constrained, this is)
                            if fire == 0 && s.starts_with(TIMEOUT_PREFIX) { c23_ok = false; if first_bad.is_empty() { first_bad = format!("episode {} call `solve` reported a timeout although its timer did not fire", ei + 1); } }
                            (ok, format!("{:?}", s))
                        }
                        Err(_) => (false, "PANIC".into()),
                    }
                }
                _ => {
                    suiron::verif_hooks::arm_virtual_timer(fire);
                    let r = catch_unwind(AssertUnwindSafe(|| solve_all(Rc::clone(&sn))));
                    suiron::verif_hooks::arm_virtual_timer(0);
                    match r {
                        Ok(mut v) => {
                            let shown = format!("{:?}", v);
                            let timed_out = v.last().map_or(false, |s| s.starts_with(TIMEOUT_PREFIX));
                            if timed_out { v.pop(); }
                            let wtexts: Vec<String> = wlist.iter().map(|a| answer_text(&qt, a)).collect();
                            let ok = if wto { timed_out && v.len() <= wtexts.len() && v[..] == wtexts[..v.len()] }
                                     else { !timed_out && v == wtexts };
                            // C23: solve_all reports a prefix of the answer sequence (complete unless timed out), and the
                            // timeout message exactly when the query's own timer fired
                            if constrained && !ok { c23_ok = false; }
                            if fire == 0 && timed_out { c23_ok = false; if first_bad.is_empty() { first_bad = format!("episode {} call `solve_all` reported a timeout although its timer did not fire", ei + 1); } }
                            (ok, shown)
                        }
                        Err(_) => (false, "PANIC".into()),
                    }
                }
            };
            capture::take();
            if fire > 0 { own_timer_fired = true; }
            if ok && !own_timer_fired && (wkind == "none" || (mode == "all" && !wto)) { exhausted = true; }
            history.push_str(&format!(" {}{}{} -> {}", if mode0 != mode { "stop_query();" } else { "" }, mode, if fire > 0 { format!("[timer fires before count_rules #{}]", fire) } else { String::new() }, got));
            // (a call during which the query's OWN timer fired is C23's matter, not C22's)
            if constrained && !ok && first_bad.is_empty() {
                first_bad = format!("episode {} call `{}`: reference {} / engine {}", ei + 1, mode,
                    match wkind { "ans" => format!("({})", show_vec(&wans)), "all" => format!("{:?}{}", wlist.iter().map(|a| show_vec(a)).collect::<Vec<_>>(), if wto { " + timeout" } else { "" }), k => k.to_string() }, got);
            }
            if constrained && !ok && !wto && wkind != "timeout" { all_ok = false; }
        }
        if exhausted { spent.push((ei + 1, qtext.clone(), Rc::clone(&sn))); }
    }
    // C05: an exhausted query stays exhausted -- also after everything that happened to LATER queries (answers,
    // re-asks, timeouts that left the stop flag set): asked again at the end of the history, through solve() and
    // through next_solution(), it reports "no more" and writes nothing
    let mut c05_bad: Option<String> = None;
    for (ep_no, qtext, sn) in &spent {
        capture::take();
        let r1 = catch_unwind(AssertUnwindSafe(|| solve(Rc::clone(sn))));
        let o1 = capture::take();
        let r2 = catch_unwind(AssertUnwindSafe(|| next_solution(Rc::clone(sn)).is_some()));
        let o2 = capture::take();
        let ok1 = matches!(&r1, Ok(t) if t == "No more.") && o1.is_empty();
        let ok2 = matches!(&r2, Ok(false)) && o2.is_empty();
        if !(ok1 && ok2) && c05_bad.is_none() {
            c05_bad = Some(format!("the query of episode {} (?- {}) had reported 'no more'; asked again after the history: solve() -> {:?} (wrote {:?}), next_solution() -> {:?} (wrote {:?})",
                                   ep_no, qtext, r1.as_ref().map_err(|_| "PANIC"), o1, r2.as_ref().map(|b| if *b { "a solution" } else { "none" }).map_err(|_| "PANIC"), o2));
        }
    }
    let what = format!("{} ::{}", show_prog(&case["prog"]), history);
    if all_ok { obs.push(Obs::ok("C22", "history")); } else { obs.push(Obs::bad("C22", "history", format!("{} :: {}", first_bad, what))); }
    if c23_ok && all_ok { obs.push(Obs::ok("C23", "reports")); }
    else if !c23_ok { obs.push(Obs::bad("C23", "timeout-report", format!("{} :: {}", first_bad, what))); }
    if !spent.is_empty() {
        match c05_bad { None => obs.push(Obs::ok("C05", "re-ask-after-history")), Some(d) => obs.push(Obs::bad("C05", "re-ask-after-history", format!("{} :: {}", d, what))) }
    }
    obs
}
