//! Conformance harness binding the TLA+ specification of Suiron to the real
//! crate.  `replay` steps TLC-generated cases through the public API and
//! compares the abstraction of the real state with the model's expectation;
//! `gen-trace` records executions of the real engine for trace validation.
//!
//! Every case runs in a worker process with a large stack and a watchdog:
//! a panic, abort, stack overflow or hang of the code under test is DATA
//! (an observation to compare), never a tool error.

mod term;
mod sandbox;
mod unify;
mod bip;
mod lists;
mod capture;
mod solve;
mod syntax;
mod reader;
mod session;
mod knowledge;
mod repl;
mod interleave;
mod timer;
mod gentrace;
mod genunify;
mod genbip;

use serde_json::Value;

/// One verdict about one property on one case.
pub struct Obs {
    pub prop: &'static str,
    pub ok: bool,
    pub kind: String,
    pub detail: String,
}
impl Obs {
    pub fn ok(prop: &'static str, kind: &str) -> Obs { Obs { prop, ok: true, kind: kind.into(), detail: String::new() } }
    pub fn bad(prop: &'static str, kind: &str, detail: String) -> Obs { Obs { prop, ok: false, kind: kind.into(), detail } }
    pub fn to_json(&self) -> Value {
        serde_json::json!({"prop": self.prop, "ok": self.ok, "kind": self.kind, "detail": self.detail})
    }
}

/// Properties a case speaks about (announced before it runs, so that a crash
/// or hang of the engine can be attributed).
pub fn props_of(case: &Value) -> Vec<&'static str> {
    match case["t"].as_str().unwrap_or("") {
        "unify" => unify::props_of(case),
        "bip" => bip::props_of(case),
        "mklist" | "rename" => lists::props_of(case),
        "solve" => solve::props_of(case),
        "reader" => reader::props_of(case),
        "session" => session::props_of(case),
        "knowledge" => knowledge::props_of(case),
        "repl" => repl::props_of(case),
        "interleave" => interleave::props_of(case),
        "timer" => timer::props_of(case),
        t if t.starts_with("syn-") => syntax::props_of(case),
        _ => vec![],
    }
}

/// Dispatch one case to its driver.
pub fn run_case(case: &Value) -> Vec<Obs> {
    match case["t"].as_str().unwrap_or("") {
        "unify" => unify::replay(case),
        "bip" => bip::replay(case),
        "solve" => solve::replay(case),
        "reader" => reader::replay(case),
        "session" => session::replay(case),
        "knowledge" => knowledge::replay(case),
        "repl" => repl::replay(case),
        "interleave" => interleave::replay(case),
        "timer" => timer::replay(case),
        t if t.starts_with("syn-") => syntax::replay(case),
        "mklist" => lists::replay_mklist(case),
        "rename" => lists::replay_rename(case),
        "atoms" => bip::check_atoms(case),
        other => vec![Obs::bad("TOOL", "unknown-case-type", other.to_string())],
    }
}

fn main() {
    let args: Vec<String> = std::env::args().collect();
    if args.len() < 2 { eprintln!("usage: harness replay <cases.ndjson> <results.ndjson> | worker ..."); std::process::exit(2); }
    let code = match args[1].as_str() {
        "replay" => sandbox::parent(&args[2], &args[3]),
        "worker" => sandbox::worker(&args[2], &args[3], args[4].parse().unwrap()),
        "gen-trace" => gentrace::main(&args[2], args[3].parse().unwrap(), args[4].parse().unwrap()),
        "gen-unify-trace" => genunify::main(&args[2], args[3].parse().unwrap(), args[4].parse().unwrap()),
        "gen-unify-worker" => genunify::worker(&args[2], args[3].parse().unwrap(), args[4].parse().unwrap(), args[5].parse().unwrap()),
        "gen-bip-trace" => genbip::main(&args[2], args[3].parse().unwrap(), args[4].parse().unwrap()),
        "gen-bip-worker" => genbip::worker(&args[2], args[3].parse().unwrap(), args[4].parse().unwrap(), args[5].parse().unwrap()),
        "record" => gentrace::record_one(&args[2], &args[3]),
        "gen-trace-worker" => gentrace::worker(&args[2], args[3].parse().unwrap(), args[4].parse().unwrap(), args[5].parse().unwrap()),
        _ => { eprintln!("unknown command"); 2 }
    };
    std::process::exit(code);
}
