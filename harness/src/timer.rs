//! Replay of Timer.tla schedules against the real query timer (C23): where the
//! main thread is when a timer's callback runs is chosen by the specification
//! and enforced through the callback gate of the verification hooks.

use crate::capture;
use crate::Obs;
use serde_json::Value;
use std::cell::RefCell;
use std::collections::HashSet;
use std::panic::{catch_unwind, AssertUnwindSafe};
use std::rc::Rc;
use std::time::Instant;
use suiron::*;
use suiron::verif_hooks as hooks;

thread_local! {
    static SEEN: RefCell<HashSet<String>> = RefCell::new(HashSet::new());
    static LEVELS: RefCell<Option<(usize, usize)>> = RefCell::new(None);
}

pub fn props_of(_case: &Value) -> Vec<&'static str> { vec!["C23", "C22"] }
thread_local! { static STRESS_DONE: std::cell::Cell<bool> = std::cell::Cell::new(false); }

fn atom(s: &str) -> Unifiable { Unifiable::Atom(s.to_string()) }
fn var(s: &str) -> Unifiable { Unifiable::LogicVar { id: 0, name: s.to_string() } }
fn cx(f: &str, args: Vec<Unifiable>) -> Unifiable { let mut v = vec![atom(f)]; v.extend(args); Unifiable::SComplex(v) }
fn call(f: &str, args: Vec<Unifiable>) -> Goal { Goal::ComplexGoal(cx(f, args)) }

/// cnt(0..9), last(0..m-1); slow :- cnt($A1), ..., cnt($Ad), last($L), fail.   (10^d * m leaves, depth d+1)
fn kb_with_slow(d: usize, m: usize) -> KnowledgeBase {
    let mut kb = KnowledgeBase::new();
    for i in 0..10 { add_rules(&mut kb, vec![Rule { head: cx("cnt", vec![Unifiable::SInteger(i)]), body: Goal::Nil }]); }
    for i in 0..m { add_rules(&mut kb, vec![Rule { head: cx("last", vec![Unifiable::SInteger(i as i64)]), body: Goal::Nil }]); }
    let mut goals: Vec<Goal> = (0..d).map(|i| call("cnt", vec![var(&format!("$A{}", i))])).collect();
    goals.push(call("last", vec![var("$L")]));
    goals.push(Goal::BuiltInGoal(BuiltInPredicate::new("fail".into(), None)));
    add_rules(&mut kb, vec![Rule { head: cx("slow", vec![]), body: Goal::OperatorGoal(Operator::And(goals)) }]);
    for a in ["a", "b"] { add_rules(&mut kb, vec![Rule { head: cx("q", vec![atom(a)]), body: Goal::Nil }]); }
    for a in ["b", "c"] { add_rules(&mut kb, vec![Rule { head: cx("r", vec![atom(a)]), body: Goal::Nil }]); }
    // fast($X, $Y) :- q($X), r($Y).     four answers, several count_rules() calls on the way
    add_rules(&mut kb, vec![Rule { head: cx("fast", vec![var("$X"), var("$Y")]),
        body: Goal::OperatorGoal(Operator::And(vec![call("q", vec![var("$X")]), call("r", vec![var("$Y")])])) }]);
    kb
}
const FAST_ANSWERS: [&str; 4] = ["$X = a, $Y = b", "$X = a, $Y = c", "$X = b, $Y = b", "$X = b, $Y = c"];

/// choose the size of the slow search so that it lasts about 1.6 s (the limit is 1 s)
fn calibrate() -> (usize, usize) {
    if let Some(x) = LEVELS.with(|l| *l.borrow()) { return x; }
    let kb = kb_with_slow(4, 10);       // 10^5 leaves
    let q = make_query(vec![atom("slow")]);
    let sn = make_base_node(Rc::new(q), &kb);
    let t0 = Instant::now();
    let _ = next_solution(sn);
    let per_leaf = t0.elapsed().as_secs_f64() / 1.0e5;
    let want = 1.7 / per_leaf;           // leaves for ~1.7 s
    let mut d = 4; let mut leaves = 1.0e4;
    while leaves * 10.0 <= want { d += 1; leaves *= 10.0; }
    let m = ((want / leaves).ceil() as usize).clamp(1, 10);
    let r = (d, m);
    LEVELS.with(|l| *l.borrow_mut() = Some(r));
    r
}

pub fn replay(case: &Value) -> Vec<Obs> {
    let nq = case["nq"].as_u64().unwrap() as usize;
    let cbs: Vec<(usize, usize, String)> = case["callbacks"].as_array().unwrap().iter()
        .map(|c| (c["timer"].as_u64().unwrap() as usize, c["query"].as_u64().unwrap() as usize, c["at"].as_str().unwrap().to_string())).collect();
    let sig = format!("{}:{:?}", nq, cbs);
    if SEEN.with(|s| !s.borrow_mut().insert(sig.clone())) { return vec![Obs::ok("SKIP", "same-schedule")]; }
    // schedules the hooks cannot enforce: the callback runs between the end of the search and the flag read
    if cbs.iter().any(|(_, _, at)| ["cancel1", "cancel_wait", "invalidate", "read"].contains(&at.as_str())) {
        return vec![Obs::ok("SKIP", "not-enforceable")];
    }
    // at most one gated timer at a time; a second slow query is only replayed when it times out normally
    let late: Vec<&(usize, usize, String)> = cbs.iter().filter(|(t, q, _)| q > t || (q == t && false)).collect();
    if late.len() > 1 { return vec![Obs::ok("SKIP", "two-late-callbacks")]; }
    // every slow query costs ~2 s of wall clock: the quick tier replays the schedules with one slow query
    let slow_timers: HashSet<usize> = cbs.iter().map(|c| c.0).collect();
    if slow_timers.len() > 1 && std::env::var("VERIF_TIER").map_or(true, |t| t != "thorough") {
        return vec![Obs::ok("SKIP", "quick-tier-one-slow-query")];
    }

    let (d, m) = calibrate();
    let kb = kb_with_slow(d, m);
    // Once per run: NoFalseTimeout under the schedules nobody chooses.  The hooks place the callback; they cannot place
    // cancel_timer() inside the start-up of the timer thread (cancel() answers NotWaiting there although nothing fired).
    // So the real scheduler is sampled: many fast queries through solve(), each a fresh timer thread; a reply that is
    // the timeout message from a call that took under 250 ms is a search well within the limit reported as timed out.
    if STRESS_DONE.with(|f| !f.replace(true)) {
        let n = if std::env::var("VERIF_TIER").map_or(false, |t| t == "thorough") { 80_000 } else { 30_000 };
        // searches of several lengths (a few microseconds to a few hundred), to sweep cancel_timer() across the start-up
        let small: Vec<KnowledgeBase> = vec![kb_with_slow(0, 3), kb_with_slow(1, 2), kb_with_slow(1, 8), kb_with_slow(2, 2), kb_with_slow(2, 6)];
        for i in 0..n {
            let which = i % (small.len() + 1);
            let t0 = Instant::now();
            let r = if which == small.len() {
                start_query();
                let sn = make_base_node(Rc::new(make_query(vec![atom("fast"), var("$X"), var("$Y")])), &kb);
                solve(sn)
            } else {
                start_query();
                let sn = make_base_node(Rc::new(make_query(vec![atom("slow")])), &small[which]);
                solve(sn)
            };
            let el = t0.elapsed();
            if r.starts_with("Query timed out") && el.as_millis() < 250 {
                return vec![Obs::bad("C23", "false-timeout", format!("solve() call {} of the sampling run (search size {}) took {:?} and reported {:?}", i + 1, which, el, r))];
            }
        }
    }
    let mut log = String::new();
    let mut bad: Option<String> = None;
    hooks::gate_timer_callback(false);
    hooks::release_gate_at_count(0);
    hooks::callback_done();
    let mut gate_pending = false;        // a callback is waiting at the gate
    let mut c22_bad = false;
    for i in 1..=nq {
        let own = cbs.iter().find(|(t, _, _)| *t == i);
        let slow = own.is_some();
        let own_in_search = own.map_or(false, |(_, q, at)| *q == i && at == "search");
        // a late callback of an earlier timer is due at this query?
        let due = late.iter().find(|(_, q, _)| *q == i).map(|(_, _, at)| at.clone());
        if slow && !own_in_search { hooks::gate_timer_callback(true); }
        let qterms = if slow { vec![atom("slow")] } else { vec![atom("fast"), var("$X"), var("$Y")] };
        let query = make_query(qterms);
        let sn = make_base_node(Rc::new(query), &kb);
        if gate_pending {
            match due.as_deref() {
                Some("start") => { hooks::release_callback_and_wait(); gate_pending = false; log.push_str(" [callback of the earlier timer runs now]"); }
                Some("search") => { hooks::release_gate_at_count(2); gate_pending = false; log.push_str(" [callback of the earlier timer runs during this search]"); }
                _ => {}
            }
        }
        capture::take();
        let t0 = Instant::now();
        let r = catch_unwind(AssertUnwindSafe(|| solve_all(Rc::clone(&sn))));
        let el = t0.elapsed().as_millis();
        capture::take();
        hooks::release_gate_at_count(0);
        let v = match r { Ok(v) => v, Err(_) => { bad = Some(format!("query {} panicked", i)); break; } };
        log.push_str(&format!(" | q{} {} {}ms -> {:?}", i, if slow { "slow" } else { "fast" }, el, v));
        let timed_out = v.last().map_or(false, |s| s.starts_with("Query timed out"));
        if slow {
            if !own_in_search {
                // the callback must now be waiting at the gate (the limit was exceeded while the search went on)
                if hooks::wait_callback_arrived(3000) { gate_pending = true; }
                else { return vec![Obs::ok("SKIP", "timer-did-not-expire")]; }
                // (the property allows the timeout message whenever the limit was exceeded -- it was, here; the
                //  protocol of Timer.tla reports it only when the callback ran, which is what the engine does)
                if timed_out && el < 900 && bad.is_none() { bad = Some(format!("query {} reported a timeout after {} ms although no callback had run", i, el)); }
            }
            // own callback during the search: a timeout report (or a complete answer list) is right
            let answers: Vec<&String> = v.iter().filter(|s| !s.starts_with("Query timed out")).collect();
            if !answers.is_empty() && bad.is_none() { bad = Some(format!("query {} (no answers) reported {:?}", i, v)); }
        } else {
            let want: Vec<String> = FAST_ANSWERS.iter().map(|s| s.to_string()).collect();
            if v != want && bad.is_none() {
                bad = Some(format!("query {} finished in {} ms, well within the limit, but reported {:?} instead of {:?}", i, el, v, want));
            }
        }
    }
    if gate_pending { hooks::release_callback_and_wait(); }
    hooks::gate_timer_callback(false);
    // NoLateFire, observed from outside: a query that reported within the limit leaves no timer behind.  A query built
    // now and searched only after the limit of the LAST query has passed (nothing is built or started in between, so
    // nothing clears the flag) must still find everything.
    if bad.is_none() && !cbs.iter().any(|(t, _, _)| *t == nq) {
        // (the last report before the pause is a "No more." of solve(): a fast query asked one answer at a time)
        {
            let query = make_query(vec![atom("fast"), var("$X"), var("$Y")]);
            let sn = make_base_node(Rc::new(query), &kb);
            let mut got: Vec<String> = vec![];
            for _ in 0..6 { let r = solve(Rc::clone(&sn)); let end = r == "No more."; got.push(r); if end { break; } }
            let mut want: Vec<String> = FAST_ANSWERS.iter().map(|s| s.to_string()).collect(); want.push("No more.".into());
            if got != want { bad = Some(format!("a fast query asked with solve() reported {:?} instead of {:?}", got, want)); }
            log.push_str(" | solve() x5 -> No more.");
        }
        let query = make_query(vec![atom("fast"), var("$X"), var("$Y")]);
        let sn = make_base_node(Rc::new(query), &kb);
        std::thread::sleep(std::time::Duration::from_millis(1250));
        let stopped = query_stopped();
        let mut n = 0;
        while let Some(_) = next_solution(Rc::clone(&sn)) { n += 1; if n > 10 { break; } }
        // (C22 as well: what this query answers must not depend on the queries before it -- on a timer one of them left behind)
        if stopped || n != 4 { c22_bad = true; }
        if stopped || n != 4 { bad = Some(format!("1.25 s after the last query had reported (within its limit) the stop flag is {} and a query built before the pause finds {} of 4 answers: a timer outlived its query", stopped, n)); }
        log.push_str(&format!(" | after a pause: flag {}, {} answers", stopped, n));
    }
    // after everything: one more fast query with plain next_solution must be undisturbed (callback at "done")
    {
        let query = make_query(vec![atom("fast"), var("$X"), var("$Y")]);
        let sn = make_base_node(Rc::new(query), &kb);
        let mut n = 0;
        while let Some(_) = next_solution(Rc::clone(&sn)) { n += 1; if n > 10 { break; } }
        if n != 4 && bad.is_none() { bad = Some(format!("a fast query after the history found {} of 4 answers", n)); }
        log.push_str(&format!(" | after: {} answers", n));
    }
    let what = format!("schedule {} ::{}", sig, log);
    let mut obs = match &bad { None => vec![Obs::ok("C23", "schedule")], Some(b) => vec![Obs::bad("C23", "wrong-report", format!("{} :: {}", b, what))] };
    if c22_bad { obs.push(Obs::bad("C22", "query-after-a-pause", format!("{} :: {}", bad.clone().unwrap_or_default(), what))); }
    else if bad.is_none() { obs.push(Obs::ok("C22", "query-after-a-pause")); }
    obs
}
