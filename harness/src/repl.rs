//! Replay of Repl.tla: the crate's own `query` program, run as a process (X03).
//! The program of the case is written to a source file, the lines the specification's user types
//! are fed to standard input, and standard output must be the specification's transcript.

use crate::solve::show_clauses;
use crate::term::*;
use crate::Obs;
use serde_json::Value;
use std::io::Write;
use std::process::{Command, Stdio};

pub fn props_of(_case: &Value) -> Vec<&'static str> { vec!["X03"] }

pub fn replay(case: &Value) -> Vec<Obs> {
    let bin = std::env::var("VERIF_QUERY_BIN").unwrap_or_default();
    if bin.is_empty() { return vec![Obs::bad("TOOL", "no-query-binary", "VERIF_QUERY_BIN is not set".into())]; }
    let path = format!("repl_tmp_{}.txt", std::process::id());
    let mut text = show_clauses(&case["prog"]).join("\n"); text.push('\n');
    if std::fs::write(&path, &text).is_err() { return vec![Obs::bad("TOOL", "write", path)]; }
    // what is typed, and what must be written
    let mut stdin_text = String::new();
    let mut want = String::new();
    let mut typed: Vec<String> = vec![];
    let mut error_marks = 0;
    for tk in case["transcript"].as_array().unwrap() {
        match tk["t"].as_str().unwrap_or("") {
            "loading" => want.push_str(&format!("Loading file: {}\n", path)),
            "prompt" => want.push_str("?- "),
            "read" => { let l = tk["s"].as_str().unwrap_or(""); stdin_text.push_str(l); stdin_text.push('\n'); if !l.is_empty() { typed.push(l.to_string()); } }
            "text" => want.push_str(tk["s"].as_str().unwrap_or("")),
            "answer" => {
                let qt = tm_from_json(&tk["q"]);
                let ans: Vec<Tm> = tk["ans"].as_array().unwrap().iter().map(tm_from_json).collect();
                want.push_str(&crate::session::answer_text(&qt, &ans)); want.push(' ');
            }
            "nomore" => want.push_str("No more. "),
            "error" => { want.push_str("\u{1}"); error_marks += 1; }       // one line, whatever it says
            _ => {}
        }
    }
    let child = Command::new(&bin).arg(&path).stdin(Stdio::piped()).stdout(Stdio::piped()).stderr(Stdio::piped()).spawn();
    let mut child = match child { Ok(c) => c, Err(e) => { let _ = std::fs::remove_file(&path); return vec![Obs::bad("TOOL", "spawn", format!("{}: {}", bin, e))]; } };
    { let mut si = child.stdin.take().unwrap(); let _ = si.write_all(stdin_text.as_bytes()); }
    // the session is short: a process that has not ended after 100 s is looping (a loaded machine needs seconds for what takes 0.3 s)
    let start = std::time::Instant::now();
    let status = loop {
        match child.try_wait() {
            Ok(Some(st)) => break Some(st),
            Ok(None) => { if start.elapsed().as_secs() > 100 { let _ = child.kill(); let _ = child.wait(); break None; } std::thread::sleep(std::time::Duration::from_millis(5)); }
            Err(_) => break None,
        }
    };
    let mut got = String::new();
    if let Some(mut so) = child.stdout.take() { use std::io::Read; let mut b = vec![]; let _ = so.read_to_end(&mut b); got = String::from_utf8_lossy(&b).to_string(); }
    let _ = std::fs::remove_file(&path);
    let what = format!("{} :: typed {:?}", text.replace('\n', " "), typed);
    match status {
        None => return vec![Obs::bad("X03", "hang", format!("{} :: the program did not end; it had written {:?}", what, got))],
        Some(st) if !st.success() => return vec![Obs::bad("X03", "exit", format!("{} :: the program ended with {:?} after writing {:?}", what, st, got))],
        _ => {}
    }
    // compare, letting each error mark stand for one non-empty line
    let parts: Vec<&str> = want.split('\u{1}').collect();
    let mut rest: &str = &got;
    let mut ok = true;
    for (i, part) in parts.iter().enumerate() {
        if !rest.starts_with(part) { ok = false; break; }
        rest = &rest[part.len()..];
        if i + 1 < parts.len() {
            match rest.find('\n') { Some(n) if n > 0 => rest = &rest[n + 1..], _ => { ok = false; break; } }
        }
    }
    if ok && !rest.is_empty() { ok = false; }
    let _ = error_marks;
    if ok { vec![Obs::ok("X03", "transcript")] }
    else { vec![Obs::bad("X03", "transcript", format!("{} :: expected {:?} (\\u{{1}} = one line of error text) / the program wrote {:?}", what, want, got))] }
}
