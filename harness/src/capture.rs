//! Capture of the process's standard output (fd 1) so that "text written
//! between answers" is observed exactly.  The worker redirects fd 1 to a pipe
//! once; `take()` flushes Rust's stdout buffer and drains the pipe.

use std::io::Write;
use std::sync::atomic::{AtomicI32, Ordering};

static RD: AtomicI32 = AtomicI32::new(-1);

pub fn install() {
    unsafe {
        let mut fds = [0i32; 2];
        if libc::pipe(fds.as_mut_ptr()) != 0 { return; }
        libc::fcntl(fds[1], libc::F_SETPIPE_SZ, 1 << 20);
        libc::dup2(fds[1], 1);
        libc::close(fds[1]);
        let fl = libc::fcntl(fds[0], libc::F_GETFL);
        libc::fcntl(fds[0], libc::F_SETFL, fl | libc::O_NONBLOCK);
        RD.store(fds[0], Ordering::SeqCst);
    }
}

/// Everything written to stdout since the last call.
pub fn take() -> String {
    let _ = std::io::stdout().flush();
    let rd = RD.load(Ordering::SeqCst);
    if rd < 0 { return String::new(); }
    let mut out: Vec<u8> = vec![];
    let mut buf = [0u8; 65536];
    loop {
        let n = unsafe { libc::read(rd, buf.as_mut_ptr() as *mut libc::c_void, buf.len()) };
        if n <= 0 { break; }
        out.extend_from_slice(&buf[..n as usize]);
    }
    String::from_utf8_lossy(&out).into_owned()
}
