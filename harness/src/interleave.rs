//! Replay of Interleave.tla: two searches alive at the same time over one knowledge base (C10).
//! Both queries are built first (make_query after one start_query), then solutions are requested
//! in the order the specification chose; every reply must be what that search observes on its own.

use crate::capture;
use crate::solve::{build_kb, parse_expect_of, show_prog, show_segs, Seg};
use crate::term::*;
use crate::Obs;
use serde_json::Value;
use std::panic::{catch_unwind, AssertUnwindSafe};
use std::rc::Rc;
use suiron::*;

pub fn props_of(case: &Value) -> Vec<&'static str> { if case["rebuild"].as_bool() == Some(true) { vec!["C10", "C22", "C02"] } else { vec!["C10", "C22"] } }

pub fn replay(case: &Value) -> Vec<Obs> {
    let kb = build_kb(&case["prog"]);
    let (ta, tb) = (tm_from_json(&case["qa"]), tm_from_json(&case["qb"]));
    let (ea, eb) = (parse_expect_of(&case["expa"]), parse_expect_of(&case["expb"]));
    let sched: Vec<String> = case["schedule"].as_array().unwrap().iter().map(|x| x.as_str().unwrap().to_string()).collect();
    // The query constructors restart the id counter (start_query()): when the query built LATER has fewer variables
    // than one whose search is alive, that search's next clause gets ids its own query variables have.  Recorded as
    // a known finding of suiron-rust (known_findings.json); such histories are reported under a kind of their own.
    fn nvars(t: &Tm) -> usize { let mut v = vec![]; fn go(t: &Tm, v: &mut Vec<String>) { match t { Tm::Var(_, n) => if !v.contains(n) { v.push(n.clone()) }, Tm::Cx(_, a) | Tm::Fn(_, a) => a.iter().for_each(|x| go(x, v)), Tm::List(a, tl) => { a.iter().for_each(|x| go(x, v)); if let Some(t) = tl { go(t, v) } } _ => {} } } go(t, &mut v); v.len() }
    let kind = if nvars(&tb) < nvars(&ta) { "later-query-has-fewer-variables" } else { "two-live-searches" };
    let mut obs = vec![];
    for (ctor, mode) in [("make_query", "next_solution"), ("parse_query", "next_solution"), ("parse_query", "solve")] {
        start_query();
        let mk = |t: &Tm| -> Option<Goal> {
            if ctor == "make_query" { match build(t) { Unifiable::SComplex(v) => Some(make_query(v)), _ => None } }
            else { catch_unwind(AssertUnwindSafe(|| parse_query(&show(t).replace("_0", "")))).ok().and_then(|r| r.ok()) }
        };
        let (qa, qb) = match (mk(&ta), mk(&tb)) { (Some(x), Some(y)) => (Rc::new(x), Rc::new(y)), _ => return vec![Obs::bad("TOOL", "query", "could not build the queries".into())] };
        let args_of = |q: &Goal| -> Vec<Tm> { match q { Goal::ComplexGoal(Unifiable::SComplex(v)) => v[1..].iter().map(project).collect(), _ => vec![] } };
        let (aa, ab) = (args_of(&qa), args_of(&qb));
        let sa = make_base_node(Rc::clone(&qa), &kb);
        let sb = make_base_node(Rc::clone(&qb), &kb);
        let (mut ga, mut gb): (Vec<Seg>, Vec<Seg>) = (vec![], vec![]);
        let mut panicked = false;
        capture::take();
        let rebuild = case["rebuild"].as_bool().unwrap_or(false);
        for who in &sched {
            // (searches without any variable: building one more query in between -- which restarts the id counter and
            //  whatever else the constructors reset -- must not matter to them)
            if rebuild { let _third = if ctor == "make_query" { Some(make_query(vec![Unifiable::Atom("r0".into())])) } else { parse_query("r0").ok() }; }
            let (sn, args, got) = if who == "A" { (&sa, &aa, &mut ga) } else { (&sb, &ab, &mut gb) };
            if mode == "solve" {
                // the way main.rs asks: solve() on the node; the reply is text
                let (qt, exp) = if who == "A" { (&ta, &ea) } else { (&tb, &eb) };
                let r = catch_unwind(AssertUnwindSafe(|| solve(Rc::clone(sn))));
                let out = capture::take();
                let k = got.len();
                match r {
                    Ok(text) => {
                        // (kept in the same shape as the expectation when the text is the expected one)
                        if k < exp.len() && exp[k].some && text == crate::session::answer_text(qt, &exp[k].ans) { got.push(Seg { out, some: true, ans: exp[k].ans.clone() }); }
                        else if text == "No more." { got.push(Seg { out, some: false, ans: vec![] }); }
                        else { got.push(Seg { out, some: true, ans: vec![Tm::Atom(format!("solve() said {:?}", text))] }); }
                    }
                    Err(_) => { panicked = true; break; }
                }
                let _ = args;
                continue;
            }
            let r = catch_unwind(AssertUnwindSafe(|| next_solution(Rc::clone(sn)).map(|s| (*s).clone())));
            let out = capture::take();
            match r {
                Ok(Some(ss)) => got.push(Seg { out, some: true, ans: canon(&args.iter().map(|t| resolve(t, &ss)).collect::<Vec<_>>()) }),
                Ok(None) => got.push(Seg { out, some: false, ans: vec![] }),
                Err(_) => { panicked = true; break; }
            }
        }
        if !panicked && ga == ea && gb == eb {
            obs.push(Obs::ok("C10", kind));
            if kind == "two-live-searches" { obs.push(Obs::ok("C22", "two-live-queries")); }
            if case["rebuild"].as_bool() == Some(true) { obs.push(Obs::ok("C02", "cut-while-other-queries-are-built")); }
        }
        else {
            // C22: what a query answers does not depend on what was asked of OTHER queries in between (re-asks of an
            // exhausted one included); the histories of the recorded finding are C10's alone
            if case["rebuild"].as_bool() == Some(true) {
                // C02: the calls of these queries are committed by a cut; building other queries in between changes nothing
                obs.push(Obs::bad("C02", "cut-while-other-queries-are-built", format!("{} :: {} ?- {} (A) and ?- {} (B), a third query built before every request, requests {} :: reference A {} B {} / engine A {} B {}",
                    show_prog(&case["prog"]), format!("{} + {}", ctor, mode), show(&ta).replace("_0", ""), show(&tb).replace("_0", ""), sched.join(""),
                    show_segs(&ea), show_segs(&eb), show_segs(&ga), show_segs(&gb))));
            }
            if kind == "two-live-searches" {
                obs.push(Obs::bad("C22", "two-live-queries", format!("{} :: {} ?- {} (A) and ?- {} (B), requests {} :: reference A {} B {} / engine A {} B {}",
                    show_prog(&case["prog"]), format!("{} + {}", ctor, mode), show(&ta).replace("_0", ""), show(&tb).replace("_0", ""), sched.join(""),
                    show_segs(&ea), show_segs(&eb), show_segs(&ga), show_segs(&gb))));
            }
            obs.push(Obs::bad("C10", kind, format!("{} :: {} ?- {} (A) and ?- {} (B), requests {} :: reference A {} B {} / engine A {} B {}{}",
                show_prog(&case["prog"]), format!("{} + {}", ctor, mode), show(&ta).replace("_0", ""), show(&tb).replace("_0", ""), sched.join(""),
                show_segs(&ea), show_segs(&eb), show_segs(&ga), show_segs(&gb), if panicked { " PANIC" } else { "" })));
            break;
        }
    }
    obs
}
