//! Process sandbox: the parent re-spawns a worker that replays cases one by
//! one and appends one result line per case.  If the worker dies (stack
//! overflow, abort) or the watchdog fires (hang), the case it was working on
//! gets a `crash` / `hang` result and a new worker resumes after it.

use serde_json::{json, Value};
use std::io::{BufRead, BufReader, Write};
use std::sync::atomic::{AtomicUsize, Ordering};
use std::sync::Arc;
use std::time::Duration;

const CASE_TIMEOUT_S: u64 = 15;     // generous: the machine may be heavily loaded; a real hang is still caught
const STACK_BYTES: usize = 64 << 20;
const MAX_DEATHS: usize = 12;

fn read_cases(path: &str) -> Vec<String> {
    let f = std::fs::File::open(path).expect("cases file");
    BufReader::new(f).lines().map(|l| l.unwrap()).filter(|l| !l.trim().is_empty()).collect()
}

/// (number of finished cases, properties announced for the unfinished one)
fn progress_of(path: &str) -> (usize, Vec<String>) {
    let mut done = 0; let mut begun: Vec<String> = vec![];
    if let Ok(f) = std::fs::File::open(path) {
        for l in BufReader::new(f).lines().flatten() {
            if l.starts_with("{\"begin\"") {
                let v: Value = serde_json::from_str(&l).unwrap_or(Value::Null);
                begun = v["begin"].as_array().map(|a| a.iter().filter_map(|x| x.as_str().map(String::from)).collect()).unwrap_or_default();
            } else { done += 1; begun.clear(); }
        }
    }
    (done, begun)
}

pub fn parent(cases: &str, results: &str) -> i32 {
    let n = read_cases(cases).len();
    let _ = std::fs::remove_file(results);
    std::fs::File::create(results).unwrap();
    let exe = std::env::current_exe().unwrap();
    let mut start = 0usize;
    let mut respawns = 0;
    let mut kills = 0;
    while start < n {
        let status = std::process::Command::new(&exe)
            .args(["worker", cases, results, &start.to_string()])
            .stdout(std::process::Stdio::null())
            .status().expect("spawn worker");
        let (done, begun) = progress_of(results);
        if status.success() && done >= n { break; }
        // killed from outside (SIGKILL: the OOM killer, an operator), not by the code under test: run the case again
        {
            use std::os::unix::process::ExitStatusExt;
            if status.signal() == Some(9) && done < n {
                kills += 1;
                if kills <= 3 { start = done; continue; }
                let mut f = std::fs::OpenOptions::new().append(true).open(results).unwrap();
                writeln!(f, "{}", json!({"i": done, "ok": [], "bad": [{"prop": "TOOL", "ok": false, "kind": "worker-killed",
                                         "detail": "the replay worker was killed from outside (SIGKILL) four times"}]})).unwrap();
                start = done + 1;
                continue;
            }
        }
        // the worker died while working on case `done`
        let how = match status.code() { Some(3) => "hang", Some(c) => if c == 0 { "lost" } else { "crash" }, None => "crash" };
        if done >= n { break; }
        let mut f = std::fs::OpenOptions::new().append(true).open(results).unwrap();
        let bad: Vec<Value> = begun.iter().map(|p| json!({"prop": p, "ok": false, "kind": how,
                          "detail": format!("the engine did not return ({}): worker {:?}", how, status)})).collect();
        let line = json!({"i": done, "died": how, "ok": [], "bad": bad});
        writeln!(f, "{}", line).unwrap();
        start = done + 1;
        respawns += 1;
        // enough: the engine has crashed or hung on MAX_DEATHS cases (each hang costs its whole allowance);
        // the remaining cases are not run -- the verdict cannot become better
        if respawns >= MAX_DEATHS && start < n {
            let mut f = std::fs::OpenOptions::new().append(true).open(results).unwrap();
            writeln!(f, "{}", json!({"i": start, "aborted": n - start, "ok": [], "bad": []})).unwrap();
            break;
        }
    }
    0
}

pub fn worker(cases: &str, results: &str, start: usize) -> i32 {
    let lines = read_cases(cases);
    let results = results.to_string();
    let progress = Arc::new(AtomicUsize::new(0));
    let p2 = Arc::clone(&progress);
    // seconds the case in progress may take (cases that run real 1 s query timers legitimately take many seconds,
    // more on a loaded machine)
    let allowance = Arc::new(AtomicUsize::new(CASE_TIMEOUT_S as usize));
    let a2 = Arc::clone(&allowance);
    // watchdog: if the case counter does not move for the case's allowance, report a hang
    std::thread::spawn(move || {
        let mut last = usize::MAX; let mut still = 0u64;
        loop {
            std::thread::sleep(Duration::from_millis(500));
            let cur = p2.load(Ordering::SeqCst);
            if cur == last { still += 1; } else { still = 0; last = cur; }
            if still >= (a2.load(Ordering::SeqCst) as u64) * 2 { std::process::exit(3); }
        }
    });
    crate::capture::install();
    crate::syntax::install_panic_hook();   // panics are data: remember where, keep stderr quiet
    let h = std::thread::Builder::new().stack_size(STACK_BYTES).spawn(move || {
        let mut out = std::fs::OpenOptions::new().append(true).open(&results).unwrap();
        for (i, line) in lines.iter().enumerate().skip(start) {
            let case: Value = match serde_json::from_str(line) {
                Ok(v) => v,
                Err(e) => { writeln!(out, "{}", json!({"i": i, "ok": [], "bad": [{"prop": "TOOL", "ok": false, "kind": "bad-json", "detail": e.to_string()}]})).unwrap(); continue; }
            };
            allowance.store(match case["t"].as_str().unwrap_or("") { "timer" => 300, "session" => 60, "repl" => 150,
                                                                     t if t.starts_with("syn-") && t != "syn-family" && t != "syn-seed" => 6,
                                                                     _ => CASE_TIMEOUT_S as usize }, Ordering::SeqCst);
            writeln!(out, "{}", json!({"begin": crate::props_of(&case), "i": i})).unwrap();
            out.flush().unwrap();
            let obs = crate::run_case(&case);
            let ok: Vec<String> = obs.iter().filter(|o| o.ok).map(|o| format!("{}:{}", o.prop, o.kind)).collect();
            let bad: Vec<Value> = obs.iter().filter(|o| !o.ok).map(|o| o.to_json()).collect();
            writeln!(out, "{}", json!({"i": i, "ok": ok, "bad": bad})).unwrap();
            out.flush().unwrap();
            progress.fetch_add(1, Ordering::SeqCst);
        }
    }).unwrap();
    match h.join() { Ok(_) => 0, Err(_) => 4 }
}
