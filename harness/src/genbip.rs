//! `gen-bip-trace`: randomly generated calls of the built-in predicates and functions (append, count,
//! include / exclude, functor, the comparisons, `=` with arithmetic / join function terms, print,
//! print_list, nl) under random prior bindings, run on the real engine and recorded as ndjson for
//! validation by TraceBuiltins.tla against the functional semantics of Builtins.tla (BipSem).
//!
//!   call    f, args, prior         written (and flushed) before the engine is called
//!   res     status (ok|fail), vals (resolved canonical values of the variables 1..n and of the
//!           arguments), out (text written), again / out2 (a second request: must fail silently)
//!   panic / crash / hang           the engine did not return
//!
//! Every atom comes from the tables below; TraceBuiltins.tla carries the same tables with the code
//! points (atoms are compared by string order, functors matched by prefix).

use crate::term::*;
use rand::rngs::StdRng;
use rand::{Rng, SeedableRng};
use serde_json::{json, Value};
use std::io::Write;
use std::panic::{catch_unwind, AssertUnwindSafe};
use std::rc::Rc;
use std::sync::atomic::{AtomicUsize, Ordering};
use std::sync::Arc;
use suiron::*;

pub const WORDS: [&str; 12] = ["a", "b", "c", "d", "ab", "B", "a b", "z", "10", "x", "9", "07"];
pub const FUNCTORS: [&str; 5] = ["f", "g", "h", "noun_phrase", "np4"];
pub const PATTERNS: [&str; 9] = ["f", "g", "noun*", "no*", "*", "f*", "x*", "fg*", "noun_phrase"];
pub const PUNCT: [&str; 4] = [",", ".", "?", "!"];
pub const FORMATS: [&str; 6] = ["%s", "<%s>", "x%s", "%s-%s", "%s%s", "a%sb%sc"];
const NAMES: [&str; 9] = ["$X", "$Y", "$Z", "$W", "$V", "$U", "$T", "$S", "$R"];

struct Gen { rng: StdRng, nv: usize, prior: Vec<Tm> }
impl Gen {
    fn pick<'a>(&mut self, xs: &'a [&'a str]) -> &'a str { xs[self.rng.gen_range(0..xs.len())] }
    fn var(&mut self, i: usize) -> Tm { Tm::Var(i, NAMES[i - 1].to_string()) }
    fn anyvar(&mut self) -> Tm { let i = self.rng.gen_range(1..=self.nv); self.var(i) }
    fn word(&mut self) -> Tm { Tm::Atom(self.pick(&WORDS).to_string()) }
    fn small_int(&mut self) -> Tm { tm_of_i64(self.rng.gen_range(-3..8)) }
    fn number(&mut self) -> Tm {
        match self.rng.gen_range(0..100) {
            0..=44 => self.small_int(),
            45..=54 => tm_of_i64([1i64 << 40, 1i64 << 62, i64::MIN, -(1i64 << 40), 1_073_741_823][self.rng.gen_range(0..5)]),
            55..=84 => tm_of_f64([0.0, 0.5, 1.5, -2.25, 3.0, -1.0, 0.25, 7.0][self.rng.gen_range(0..8)]),
            _ => tm_of_f64([18446744073709551616.0, -18446744073709551616.0, 9223372036854775808.0, 1099511627776.0, 4611686018427387904.0][self.rng.gen_range(0..5)]),
        }
    }
    fn constant(&mut self) -> Tm { if self.rng.gen_bool(0.55) { self.word() } else { self.number() } }
    fn cx(&mut self, depth: usize) -> Tm {
        let f = self.pick(&FUNCTORS).to_string();
        let n = match f.as_str() { "h" => 0, "f" => 1, "g" => 2, "noun_phrase" => self.rng.gen_range(1..=3), _ => 4 };
        Tm::Cx(f, (0..n).map(|_| self.elem(depth.saturating_sub(1))).collect())
    }
    /// an element of a list / argument of a complex term
    fn elem(&mut self, depth: usize) -> Tm {
        let r = self.rng.gen_range(0..100);
        if r < 40 { self.word() }
        else if r < 52 { self.small_int() }
        else if r < 57 { tm_of_f64(1.5) }
        else if r < 70 { self.anyvar() }
        else if depth == 0 { self.word() }
        else if r < 80 { self.cx(depth) }
        else if r < 86 { Tm::List(vec![], None) }
        else { self.list(depth - 1, true) }
    }
    fn list(&mut self, depth: usize, tails: bool) -> Tm {
        let n = self.rng.gen_range(0..=3);
        let els: Vec<Tm> = (0..n).map(|_| self.elem(depth)).collect();
        let tail = if tails && n > 0 && self.rng.gen_range(0..100) < 30 { Some(Box::new(if self.rng.gen_bool(0.9) { self.anyvar() } else { Tm::Anon })) } else { None };
        Tm::List(els, tail)
    }
    /// prior bindings: slot i may only mention variables j > i (acyclic by construction)
    fn make_prior(&mut self, want_lists: bool, numbers: bool) {
        self.prior = vec![Tm::None; self.nv];
        for i in (1..=self.nv).rev() {
            if self.rng.gen_range(0..100) < 60 {
                let later = if i < self.nv { Some(self.rng.gen_range(i + 1..=self.nv)) } else { None };
                let r = self.rng.gen_range(0..100);
                let t = if r < 20 && later.is_some() { let j = later.unwrap(); self.var(j) }
                        else if numbers && r < 70 { self.number() }
                        else if want_lists && r < 70 {
                            let n = self.rng.gen_range(0..=3);
                            let els: Vec<Tm> = (0..n).map(|_| self.ground_elem()).collect();
                            let tail = match later { Some(j) if n > 0 && self.rng.gen_range(0..100) < 40 => { Some(Box::new(self.var(j))) } _ => None };
                            Tm::List(els, tail)
                        }
                        else if r < 80 { self.constant() }
                        else if r < 90 { let f = self.pick(&FUNCTORS[..2]).to_string(); let n = if f == "f" { 1 } else { 2 }; Tm::Cx(f, (0..n).map(|_| self.ground_elem()).collect()) }
                        else { Tm::Atom(self.pick(&PUNCT).to_string()) };
                self.prior[i - 1] = t;
            }
        }
    }
    fn ground_elem(&mut self) -> Tm {
        match self.rng.gen_range(0..100) { 0..=54 => self.word(), 55..=69 => self.small_int(), 70..=79 => Tm::Cx("f".into(), vec![self.word()]),
                                          80..=87 => Tm::List(vec![], None), _ => Tm::List(vec![self.word(), self.word()], None) }
    }

    fn call(&mut self) -> (String, Vec<Tm>) {
        let kind = self.rng.gen_range(0..100);
        if kind < 16 {
            self.make_prior(false, true);
            let op = self.pick(&["equal", "less_than", "less_than_or_equal", "greater_than", "greater_than_or_equal"]).to_string();
            let arg = |g: &mut Gen| -> Tm { match g.rng.gen_range(0..100) { 0..=34 => g.anyvar(), 35..=64 => g.number(), 65..=89 => g.word(), 90..=94 => g.cx(1), _ => g.list(0, false) } };
            let a = arg(self); let b = arg(self);
            (op, vec![a, b])
        } else if kind < 38 {
            self.make_prior(true, false);
            let n = self.rng.gen_range(1..=4);
            let mut args: Vec<Tm> = (0..n).map(|_| match self.rng.gen_range(0..100) { 0..=29 => self.anyvar(), 30..=64 => self.list(1, true), 65..=79 => self.word(), 80..=87 => self.small_int(), _ => self.cx(1) }).collect();
            let out = match self.rng.gen_range(0..100) { 0..=54 => self.anyvar(), 55..=79 => self.list(1, true), _ => { let k = self.rng.gen_range(1..=2); let h: Vec<Tm> = (0..k).map(|_| self.anyvar()).collect(); let t = self.anyvar(); Tm::List(h, Some(Box::new(t))) } };
            args.push(out);
            ("append".into(), args)
        } else if kind < 48 {
            self.make_prior(true, false);
            let l = if self.rng.gen_bool(0.5) { self.anyvar() } else { self.list(1, true) };
            let o = if self.rng.gen_bool(0.7) { self.anyvar() } else { self.small_int() };
            ("count".into(), vec![l, o])
        } else if kind < 63 {
            self.make_prior(true, false);
            let f = self.pick(&["include", "exclude"]).to_string();
            let pat = match self.rng.gen_range(0..100) { 0..=24 => self.word(), 25..=39 => self.anyvar(), 40..=49 => Tm::Anon, 50..=64 => Tm::Cx("f".into(), vec![Tm::Anon]),
                                                          65..=74 => { let v = self.anyvar(); Tm::Cx("g".into(), vec![v.clone(), v]) } 75..=82 => self.cx(1), 83..=86 => self.list(1, true),
                                                          87..=92 => Tm::List(vec![Tm::Anon], Some(Box::new(Tm::Anon))), _ => self.small_int() };
            let l = if self.rng.gen_bool(0.4) { self.anyvar() } else { self.list(1, true) };
            let o = if self.rng.gen_bool(0.8) { self.anyvar() } else { self.list(0, false) };
            (f, vec![pat, l, o])
        } else if kind < 73 {
            self.make_prior(false, false);
            let t = if self.rng.gen_bool(0.35) { self.anyvar() } else if self.rng.gen_bool(0.9) { self.cx(1) } else { self.word() };
            let p = match self.rng.gen_range(0..100) { 0..=59 => Tm::Atom(self.pick(&PATTERNS).to_string()), 60..=89 => self.anyvar(), _ => Tm::Anon };
            if self.rng.gen_bool(0.5) { ("functor".into(), vec![t, p]) }
            else { let ar = if self.rng.gen_bool(0.6) { self.anyvar() } else { tm_of_i64(self.rng.gen_range(0..5)) }; ("functor".into(), vec![t, p, ar]) }
        } else if kind < 90 {
            // `=` with a function term on one side
            let join = self.rng.gen_range(0..100) < 30;
            self.make_prior(join, !join);
            let fterm = if join {
                let n = self.rng.gen_range(1..=4);
                Tm::Fn("join".into(), (0..n).map(|_| match self.rng.gen_range(0..100) { 0..=39 => self.word(), 40..=54 => Tm::Atom(self.pick(&PUNCT).to_string()), 55..=79 => self.anyvar(),
                                                                                        80..=89 => self.small_int(), _ => { let k = self.rng.gen_range(1..=3); Tm::List((0..k).map(|_| if self.rng.gen_bool(0.3) { self.anyvar() } else if self.rng.gen_bool(0.2) { Tm::Atom(self.pick(&PUNCT).to_string()) } else { self.word() }).collect(), None) } }).collect())
            } else {
                let op = self.pick(&["add", "subtract", "multiply", "divide"]).to_string();
                let n = self.rng.gen_range(1..=4);
                Tm::Fn(op, (0..n).map(|_| if self.rng.gen_bool(0.4) { self.anyvar() } else { self.number() }).collect())
            };
            let other = match self.rng.gen_range(0..100) { 0..=59 => self.anyvar(), 60..=84 => self.constant(), _ => Tm::Anon };
            if self.rng.gen_bool(0.6) { ("unify".into(), vec![other, fterm]) } else { ("unify".into(), vec![fterm, other]) }
        } else {
            self.make_prior(true, false);
            match self.rng.gen_range(0..100) {
                0..=59 => {
                    let with_fmt = self.rng.gen_bool(0.6);
                    let mut args = vec![];
                    let n = if with_fmt {
                        let f = self.pick(&FORMATS).to_string(); let k = f.matches("%s").count();
                        // one time in three the format string is reached through a variable
                        if self.rng.gen_range(0..3) == 0 { let i = self.rng.gen_range(1..=self.nv); self.prior[i - 1] = Tm::Atom(f); let v = self.var(i); args.push(v); }
                        else { args.push(Tm::Atom(f)); }
                        k
                    } else { self.rng.gen_range(1..=3) };
                    for _ in 0..n { let a = match self.rng.gen_range(0..100) { 0..=39 => self.word(), 40..=54 => self.small_int(), 55..=84 => self.anyvar(), 85..=92 => self.cx(0), _ => Tm::Atom("%s".into()) }; args.push(a); }
                    ("print".into(), args)
                }
                60..=94 => { let l = if self.rng.gen_bool(0.4) { self.anyvar() } else { self.list(1, true) }; ("print_list".into(), vec![l]) }
                _ => ("nl".into(), vec![]),
            }
        }
    }
}

fn run_seed(seed: u64, idx: usize) -> u64 { seed.wrapping_mul(3_000_017).wrapping_add(idx as u64 * 15_485_863 + 11) }

pub fn worker(out: &str, seed: u64, start: usize, end: usize) -> i32 {
    crate::capture::install();
    crate::syntax::install_panic_hook();
    let progress = Arc::new(AtomicUsize::new(0));
    let p2 = Arc::clone(&progress);
    std::thread::spawn(move || {
        let mut last = usize::MAX; let mut still = 0u64;
        loop {
            std::thread::sleep(std::time::Duration::from_millis(500));
            let cur = p2.load(Ordering::SeqCst);
            if cur == last { still += 1; } else { still = 0; last = cur; }
            if still >= 30 { std::process::exit(3); }
        }
    });
    let out = out.to_string();
    let h = std::thread::Builder::new().stack_size(64 << 20).spawn(move || {
        let mut f = std::fs::OpenOptions::new().append(true).create(true).open(&out).unwrap();
        for idx in start..end {
            let mut rng = StdRng::seed_from_u64(run_seed(seed, idx));
            let nv = rng.gen_range(3..=6);
            let mut g = Gen { rng, nv, prior: vec![] };
            let (fname, args_t) = g.call();
            let prior_t = g.prior.clone();
            writeln!(f, "{}", json!({"e": "call", "run": idx, "f": fname, "args": args_t.iter().map(tm_to_json).collect::<Vec<_>>(),
                                     "prior": prior_t.iter().map(tm_to_json).collect::<Vec<_>>()})).unwrap();
            f.flush().unwrap();
            let mut watch: Vec<Tm> = (1..=nv).map(|i| Tm::Var(i, NAMES[i - 1].to_string())).collect();
            watch.extend(args_t.iter().cloned());
            let args: Vec<Unifiable> = args_t.iter().map(build).collect();
            let prior = build_ss(&prior_t);
            let kb = KnowledgeBase::new();
            set_var_id(nv + 5);
            let base = make_base_node(Rc::new(Goal::ComplexGoal(Unifiable::SComplex(vec![Unifiable::Atom("go".into())]))), &kb);
            let goal = Goal::BuiltInGoal(BuiltInPredicate::new(fname.clone(), if args.is_empty() { None } else { Some(args) }));
            let sn = make_solution_node(Rc::new(goal), &kb, Rc::clone(&prior), base);
            crate::capture::take();
            let first = catch_unwind(AssertUnwindSafe(|| next_solution(Rc::clone(&sn)).map(|s| (*s).clone())));
            let out_text = crate::capture::take();
            match first {
                Err(e) => {
                    let msg = e.downcast_ref::<String>().cloned().or_else(|| e.downcast_ref::<&str>().map(|s| s.to_string())).unwrap_or_default();
                    writeln!(f, "{}", json!({"e": "panic", "msg": msg})).unwrap();
                }
                Ok(r) => {
                    let (status, ss): (&str, SubstitutionSet) = match r { Some(s) => ("ok", s), None => ("fail", (*prior).clone()) };
                    let vals = canon(&watch.iter().map(|v| resolve(v, &ss)).collect::<Vec<_>>());
                    let again = catch_unwind(AssertUnwindSafe(|| next_solution(Rc::clone(&sn)).is_some())).unwrap_or(true);
                    let out2 = crate::capture::take();
                    let vj: Vec<Value> = vals.iter().map(|t| if contains_bad(t, "") { json!({"k": "atom", "s": "<unprojectable>"}) } else { tm_to_json(t) }).collect();
                    writeln!(f, "{}", json!({"e": "res", "status": status, "vals": vj, "out": out_text, "again": again, "out2": out2,
                                             "malformed": vals.iter().any(|t| contains_bad(t, "list"))})).unwrap();
                }
            }
            f.flush().unwrap();
            progress.fetch_add(1, Ordering::SeqCst);
        }
    }).unwrap();
    match h.join() { Ok(_) => 0, Err(_) => 4 }
}

/// gen-bip-trace <out.ndjson> <seed> <calls>
pub fn main(out: &str, seed: u64, runs: usize) -> i32 {
    let _ = std::fs::remove_file(out);
    std::fs::File::create(out).unwrap();
    let exe = std::env::current_exe().unwrap();
    let mut start = 0usize;
    let mut deaths = 0;
    while start < runs {
        let status = std::process::Command::new(&exe)
            .args(["gen-bip-worker", out, &seed.to_string(), &start.to_string(), &runs.to_string()])
            .stdout(std::process::Stdio::null())
            .status().expect("spawn gen-bip worker");
        if status.success() { break; }
        let text = std::fs::read_to_string(out).unwrap_or_default();
        let mut last_run: Option<usize> = None;
        for l in text.lines() {
            if l.starts_with("{\"args\"") || l.contains("\"e\":\"call\"") {
                if let Ok(v) = serde_json::from_str::<Value>(l) { if v["e"] == "call" { last_run = v["run"].as_u64().map(|x| x as usize); } }
            }
        }
        let how = match status.code() { Some(3) => "hang", _ => "crash" };
        let mut f = std::fs::OpenOptions::new().append(true).open(out).unwrap();
        if !text.ends_with('\n') && !text.is_empty() { writeln!(f).unwrap(); }
        writeln!(f, "{}", json!({"e": how, "status": format!("{:?}", status)})).unwrap();
        match last_run { Some(r) => start = r + 1, None => { eprintln!("gen-bip-trace: worker died at once: {:?}", status); return 2; } }
        deaths += 1;
        if deaths > 500 { eprintln!("gen-bip-trace: too many worker deaths"); return 2; }
    }
    let n = std::fs::read_to_string(out).unwrap_or_default().lines().filter(|l| l.contains("\"e\":\"call\"")).count();
    eprintln!("gen-bip-trace: {} calls written ({} worker deaths)", n, deaths);
    0
}
