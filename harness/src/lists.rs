//! Replay of Lists.tla: make_linked_list (C15) and recreate_variables (C10, C15).

use crate::term::*;
use crate::Obs;
use serde_json::Value;
use std::panic::{catch_unwind, AssertUnwindSafe};
use suiron::*;

pub fn props_of(case: &Value) -> Vec<&'static str> {
    if case["status"].as_str() != Some("ok") { return vec![]; }
    match case["t"].as_str().unwrap_or("") {
        "mklist" => vec!["C15"],
        _ => vec!["C10", "C15"],
    }
}

pub fn replay_mklist(case: &Value) -> Vec<Obs> {
    if case["status"].as_str() != Some("ok") { return vec![Obs::ok("SKIP", "out")]; }
    let vbar = case["vbar"].as_bool().unwrap();
    let terms_t: Vec<Tm> = case["terms"].as_array().unwrap().iter().map(tm_from_json).collect();
    let expect = tm_from_json(&case["expect"]);
    let terms: Vec<Unifiable> = terms_t.iter().map(build).collect();
    let what = format!("make_linked_list({}, [{}])", vbar, show_vec(&terms_t).replace(" ; ", ", "));
    let got = match catch_unwind(AssertUnwindSafe(|| make_linked_list(vbar, terms))) {
        Ok(u) => project(&u),
        Err(_) => Tm::Bad("panic".into()),
    };
    if got == expect { vec![Obs::ok("C15", "constructor")] }
    else { vec![Obs::bad("C15", "constructor", format!("{} :: documented {} / built {}", what, show(&expect), show(&got)))] }
}

fn var_pairs(t: &Tm, acc: &mut Vec<(String, usize)>) {
    match t {
        Tm::Var(id, name) => acc.push((name.clone(), *id)),
        Tm::Cx(_, a) | Tm::Fn(_, a) => a.iter().for_each(|x| var_pairs(x, acc)),
        Tm::List(a, tl) => { a.iter().for_each(|x| var_pairs(x, acc)); if let Some(x) = tl { var_pairs(x, acc) } }
        _ => {}
    }
}

pub fn replay_rename(case: &Value) -> Vec<Obs> {
    let terms_t: Vec<Tm> = case["terms"].as_array().unwrap().iter().map(tm_from_json).collect();
    let expect: Vec<Tm> = case["expect"].as_array().unwrap().iter().map(tm_from_json).collect();
    let base = case["base"].as_u64().unwrap() as usize;
    let nvars = case["nvars"].as_u64().unwrap() as usize;
    let what = format!("recreate_variables([{}]) with LOGIC_VAR_ID = {}", show_vec(&terms_t).replace(" ; ", ", "), base);
    let terms: Vec<Unifiable> = terms_t.iter().map(build).collect();
    set_var_id(base);
    let mut map = VarMap::new();
    let out = catch_unwind(AssertUnwindSafe(|| terms.into_iter().map(|t| t.recreate_variables(&mut map)).collect::<Vec<_>>()));
    let out = match out { Ok(o) => o, Err(_) => return vec![Obs::bad("C10", "rename-panic", what)] };
    let got: Vec<Tm> = out.iter().map(project).collect();
    let mut obs = vec![];
    // shape (everything but the variables) and consistent naming: equal up to a bijection on ids
    let shape_ok = canon(&got) == expect;
    let malformed = got.iter().any(|t| contains_bad(t, "list"));
    // same name <=> same id; every id fresh: base < id <= counter after
    let mut pairs = vec![]; got.iter().for_each(|t| var_pairs(t, &mut pairs));
    let after = get_var_id();
    let mut consistent = true;
    for (n1, i1) in &pairs { for (n2, i2) in &pairs { if (n1 == n2) != (i1 == i2) { consistent = false; } } }
    let fresh = pairs.iter().all(|(_, id)| *id > base && *id <= after);
    let distinct: std::collections::HashSet<usize> = pairs.iter().map(|p| p.1).collect();
    let count_ok = distinct.len() == nvars;
    let detail = format!("{} :: expected {} / got {} (ids {}..={})", what, show_vec(&expect), show_vec(&got), base + 1, after);
    if shape_ok && consistent && fresh && count_ok { obs.push(Obs::ok("C10", "rename")); }
    else { obs.push(Obs::bad("C10", if !shape_ok { "rename-shape" } else if !fresh { "rename-not-fresh" } else { "rename-inconsistent" }, detail.clone())); }
    if terms_t.iter().any(|t| matches!(t, Tm::List(..)) || nested_list(t)) {
        if malformed || !shape_ok { obs.push(Obs::bad("C15", "renamed-list", detail)); } else { obs.push(Obs::ok("C15", "renamed-list")); }
    }
    obs
}

fn nested_list(t: &Tm) -> bool {
    match t {
        Tm::List(..) => true,
        Tm::Cx(_, a) | Tm::Fn(_, a) => a.iter().any(nested_list),
        _ => false,
    }
}
