//! Replay of Reader.tla layouts: load_kb_from_file vs parse_rule on each rule (C21).

use crate::Obs;
use serde_json::Value;
use std::panic::{catch_unwind, AssertUnwindSafe};
use suiron::*;

pub fn props_of(_case: &Value) -> Vec<&'static str> { vec!["C21"] }

pub fn replay(case: &Value) -> Vec<Obs> {
    let rules: Vec<String> = case["rules"].as_array().unwrap().iter().map(|x| x.as_str().unwrap().to_string()).collect();
    let lines: Vec<String> = case["lines"].as_array().unwrap().iter().map(|x| x.as_str().unwrap().to_string()).collect();
    let legal = case["legal"].as_bool().unwrap_or(true);
    // reference: each rule through the rule parser
    let mut kb_ref = KnowledgeBase::new();
    for r in &rules {
        match catch_unwind(AssertUnwindSafe(|| parse_rule(r))) {
            Ok(Ok(rule)) => add_rules(&mut kb_ref, vec![rule]),
            other => return vec![Obs::bad("TOOL", "reference-rule", format!("parse_rule({:?}) -> {:?}", r, other.map(|x| x.map(|r| r.to_string()))))],
        }
    }
    let path = format!("reader_tmp_{}.txt", std::process::id());
    // (every other layout is written without the final newline, every fifth with Windows line ends)
    let mut text = lines.join("\n");
    if text.len() % 2 == 0 { text.push('\n'); }
    if text.len() % 5 == 0 { text = text.replace('\n', "\r\n"); }
    if std::fs::write(&path, &text).is_err() { return vec![Obs::bad("TOOL", "write", path)]; }
    let mut kb = KnowledgeBase::new();
    let res = catch_unwind(AssertUnwindSafe(|| load_kb_from_file(&mut kb, &path)));
    let _ = std::fs::remove_file(&path);
    let what = format!("file {:?}", text);
    match res {
        Err(_) => vec![Obs::bad("C21", "panic", format!("{} :: load_kb_from_file panicked", what))],
        Ok(Some(err)) => {
            if legal { vec![Obs::bad("C21", "rejected", format!("{} :: a legal layout of {:?} was rejected: {}", what, rules, err.replace('\n', " ")))] }
            else { vec![Obs::ok("C21", "rejected-illegal")] }
        }
        Ok(None) => {
            if format_kb(&kb) == format_kb(&kb_ref) && structure(&kb) == structure(&kb_ref) { vec![Obs::ok("C21", if legal { "loaded" } else { "loaded-illegal" })] }
            else { vec![Obs::bad("C21", "different", format!("{} :: loaded as {:?} instead of {:?}", what,
                        format_kb(&kb).replace('\n', " | "), format_kb(&kb_ref).replace('\n', " | ")))] }
        }
    }
}

/// The knowledge base rule for rule (per predicate, in order), as structure: two rules that print alike
/// but differ in what was parsed (an atom `5` for the integer 5) are different.
pub fn structure(kb: &KnowledgeBase) -> std::collections::BTreeMap<String, Vec<String>> {
    let mut m = std::collections::BTreeMap::new();
    for (k, rules) in kb.iter() {
        m.insert(k.clone(), rules.iter().map(|r| format!("{} :- {}", serde_json::to_string(&crate::term::tm_to_json(&crate::term::project(&r.head))).unwrap(),
                                                         crate::syntax::project_goal(&r.body))).collect());
    }
    m
}
