//! Replay of single built-in predicate calls (Builtins.tla): C14, C16, C17, C15.

use crate::term::*;
use crate::Obs;
use serde_json::Value;
use std::panic::{catch_unwind, AssertUnwindSafe};
use std::rc::Rc;
use suiron::*;

/// the slice a recorded call (slice "trace") belongs to, by its functor
fn slice_of(case: &Value) -> String {
    let s = case["slice"].as_str().unwrap_or("");
    if s != "trace" { return s.to_string(); }
    match case["f"].as_str().unwrap_or("") {
        "equal" | "less_than" | "less_than_or_equal" | "greater_than" | "greater_than_or_equal" => "cmp",
        "append" => "append", "include" | "exclude" => "filter", "count" => "count", "functor" => "functor",
        "print" | "print_list" | "nl" => "print", "unify" => "fnunify", _ => "other",
    }.to_string()
}

pub fn props_of(case: &Value) -> Vec<&'static str> {
    if case["status"].as_str() == Some("out") { return vec![]; }
    match slice_of(case).as_str() {
        "fnunify" => vec!["C13", "C12", "C17"],
        "cmp" => vec!["C14"],
        "append" => vec!["C16", "C15"],
        "filter" => vec!["C17", "C15"],
        "print" => vec!["C04"],
        _ => vec!["C17"],
    }
}

fn has_list_element(t: &Tm) -> bool {
    match t { Tm::List(a, _) => a.iter().any(|e| matches!(e, Tm::List(..))), _ => false }
}

pub fn replay(case: &Value) -> Vec<Obs> {
    let slice_s = slice_of(case);
    let slice = slice_s.as_str();
    let f = case["f"].as_str().unwrap().to_string();
    let args_t: Vec<Tm> = case["args"].as_array().unwrap().iter().map(tm_from_json).collect();
    let prior_t: Vec<Tm> = case["prior"].as_array().unwrap().iter().map(tm_from_json).collect();
    let exp_status = case["status"].as_str().unwrap();
    if exp_status == "out" { return vec![Obs::ok("SKIP", "out")]; }
    let exp_res: Vec<Tm> = case["res"].as_array().unwrap().iter().map(tm_from_json).collect();
    // the format-string table of the specification must describe the real strings
    if slice == "print" {
        if let Some(fm) = case["fmt"].as_object() {
            for (k, v) in fm {
                let pieces: Vec<&str> = v.as_array().unwrap().iter().map(|x| x.as_str().unwrap()).collect();
                if k.split("%s").collect::<Vec<_>>() != pieces { return vec![Obs::bad("TOOL", "fmt-table", k.clone())]; }
            }
        }
    }
    let nvars = prior_t.len();
    let names = if case["slice"].as_str() == Some("trace") { ["$X", "$Y", "$Z", "$W", "$V", "$U", "$T", "$S", "$R"] } else { ["$X", "$Y", "$Z", "$O", "$V", "$U", "$T", "$S", "$R"] };
    let mut watch: Vec<Tm> = (1..=nvars).map(|i| Tm::Var(i, names[i - 1].to_string())).collect();
    watch.extend(args_t.iter().cloned());
    let what = format!("{}({})  prior{{{}}}", f, show_vec(&args_t).replace(" ; ", ", "),
        prior_t.iter().enumerate().filter(|(_, t)| **t != Tm::None).map(|(i, t)| format!("{}->{}", names[i], show(t))).collect::<Vec<_>>().join(" "));

    let args: Vec<Unifiable> = args_t.iter().map(build).collect();
    let prior = build_ss(&prior_t);
    let kb = KnowledgeBase::new();
    set_var_id(nvars + 5);
    let base = make_base_node(Rc::new(Goal::ComplexGoal(Unifiable::SComplex(vec![Unifiable::Atom("go".into())]))), &kb);
    let goal = Goal::BuiltInGoal(BuiltInPredicate::new(f.clone(), if args.is_empty() { None } else { Some(args) }));
    let sn = make_solution_node(Rc::new(goal), &kb, Rc::clone(&prior), base);

    crate::capture::take();
    let first = catch_unwind(AssertUnwindSafe(|| next_solution(Rc::clone(&sn)).map(|s| (*s).clone())));
    let (status, ss, note): (String, SubstitutionSet, String) = match first {
        Ok(Some(s)) => ("ok".into(), s, String::new()),
        Ok(None) => ("fail".into(), (*prior).clone(), String::new()),
        Err(e) => ("panic".into(), (*prior).clone(),
                   e.downcast_ref::<String>().cloned().or_else(|| e.downcast_ref::<&str>().map(|s| s.to_string())).unwrap_or_default()),
    };
    let out_text = crate::capture::take();
    let res = canon(&watch.iter().map(|v| resolve(v, &ss)).collect::<Vec<_>>());
    let malformed = res.iter().any(|t| contains_bad(t, "list"));
    let agrees = status == exp_status && res == exp_res;
    // at most once
    let again = catch_unwind(AssertUnwindSafe(|| next_solution(Rc::clone(&sn)).is_some())).unwrap_or(true);
    let out_again = crate::capture::take();
    if slice == "print" {
        // C04: the text written is exactly the model's, once: a second request writes nothing and fails
        let exp_out = case["out"].as_str().unwrap_or("");
        let what2 = format!("{} :: model {} {:?} / impl {} {:?}{}", what, exp_status, exp_out, status, out_text,
                            if again || !out_again.is_empty() { format!(" ; a second request: success={} text={:?}", again, out_again) } else { String::new() });
        return if agrees && out_text == exp_out && !again && out_again.is_empty() { vec![Obs::ok("C04", &f)] } else { vec![Obs::bad("C04", &f, what2)] };
    }
    let detail = format!("{} :: model {} [{}] / impl {} [{}] {}{}", what, exp_status, show_vec(&exp_res), status, show_vec(&res), note,
                         if again { " ; a second request succeeded again" } else { "" });
    let owner: &'static str = match slice { "cmp" => "C14", "append" => "C16", "fnunify" => "C13", _ => "C17" };
    let mut obs = vec![];
    let mut ok = agrees && !again;
    if slice == "cmp" && status == "ok" && ss != *prior { ok = false; }
    if ok { obs.push(Obs::ok(owner, &f)); } else { obs.push(Obs::bad(owner, &f, detail.clone())); }
    if slice == "append" || slice == "filter" {
        let exp_out = exp_res.last().unwrap();
        // C15: the list the built-in BUILDS (what the output variable is bound to, before any resolving) holds exactly
        // its elements itself: no tail variable left in it to be followed, as many cells as the result has elements
        if status == "ok" && exp_status == "ok" && agrees {
            if let (Some(Tm::Var(id, _)), Tm::List(exp_els, None)) = (args_t.last(), exp_out) {
                if *id >= 1 && *id <= prior_t.len() && prior_t[*id - 1] == Tm::None {
                    let mut cur: Option<Tm> = ss.get(*id).and_then(|b| b.as_ref().map(|u| project(u)));
                    let mut hops = 0;
                    while let Some(Tm::Var(j, _)) = cur.clone() { hops += 1; if hops > 20 { break; } cur = ss.get(j).and_then(|b| b.as_ref().map(|u| project(u))); }
                    if let Some(Tm::List(els, tail)) = cur {
                        if tail.is_some() || els.len() != exp_els.len() {
                            obs.push(Obs::bad("C15", "built-list-not-closed", format!("{} :: the list bound to the output variable is {} ({} cells{}) for the {} elements {}", what,
                                show(&Tm::List(els.clone(), tail.clone())), els.len(), if tail.is_some() { " and a tail variable" } else { "" }, exp_els.len(), show(exp_out))));
                        } else { obs.push(Obs::ok("C15", "built-list-closed")); }
                    }
                }
            }
        }
        if malformed { obs.push(Obs::bad("C15", "malformed-list", detail.clone())); }
        else if exp_status == "ok" && has_list_element(exp_out) {
            if agrees { obs.push(Obs::ok("C15", "list-valued-element")); }
            else { obs.push(Obs::bad("C15", "list-valued-element", detail)); }
        }
    }
    obs
}

/// The specification's atom -> code point table must describe the real strings.
pub fn check_atoms(case: &Value) -> Vec<Obs> {
    let mut obs = vec![];
    for e in case["table"].as_array().unwrap() {
        let s = e["s"].as_str().unwrap();
        let c: Vec<u64> = e["c"].as_array().unwrap().iter().map(|x| x.as_u64().unwrap()).collect();
        let real: Vec<u64> = s.chars().map(|ch| ch as u64).collect();
        if c != real { obs.push(Obs::bad("TOOL", "atom-table", format!("{} {:?} {:?}", s, c, real))); }
    }
    if obs.is_empty() { obs.push(Obs::ok("TABLE", "atoms")); }
    obs
}
