//! Replay of Unify.tla behaviours into Unifiable::unify (C06-C10, C13).

use crate::term::*;
use crate::Obs;
use serde_json::Value;
use std::panic::{catch_unwind, AssertUnwindSafe};
use std::rc::Rc;
use suiron::*;

pub struct Outcome {
    pub done: usize,          // unifications completed
    pub status: String,       // ok | fail | panic
    pub res: Vec<Tm>,         // canonical resolved values of the variables
    pub cycle: bool,          // a returned substitution set contains a cycle
    pub anon_bound: bool,     // some variable is bound to $_
    pub note: String,
}

/// Run a session of unifications on the real engine.
pub fn run_session(pairs: &[(Unifiable, Unifiable)], prior: Rc<SubstitutionSet<'static>>, vars: &[Tm]) -> Outcome {
    let mut ss = prior;
    let mut done = 0;
    let mut status = "ok".to_string();
    let mut cycle = false;
    let mut note = String::new();
    for (l, r) in pairs {
        let cur = Rc::clone(&ss);
        let r2 = catch_unwind(AssertUnwindSafe(|| l.unify(r, &cur).map(|s| (*s).clone())));
        match r2 {
            Ok(Some(s)) => {
                let s: Rc<SubstitutionSet<'static>> = Rc::new(s);
                if has_cycle(&s) { cycle = true; }
                ss = s;
                done += 1;
            }
            Ok(None) => { status = "fail".into(); break; }
            Err(e) => {
                status = "panic".into();
                note = e.downcast_ref::<String>().cloned().or_else(|| e.downcast_ref::<&str>().map(|s| s.to_string())).unwrap_or_default();
                break;
            }
        }
    }
    let anon_bound = ss.iter().any(|b| matches!(b.as_deref(), Some(Unifiable::Anonymous)));
    let res = canon(&vars.iter().map(|v| resolve(v, &ss)).collect::<Vec<_>>());
    Outcome { done, status, res, cycle, anon_bound, note }
}

fn parse_pairs(case: &Value) -> Vec<(Tm, Tm)> {
    case["pairs"].as_array().unwrap().iter().map(|p| (tm_from_json(&p["l"]), tm_from_json(&p["r"]))).collect()
}

fn describe(pairs: &[(Tm, Tm)], prior: &[Tm]) -> String {
    let ps = pairs.iter().map(|(l, r)| format!("{} = {}", show(l), show(r))).collect::<Vec<_>>().join(" , ");
    let pr = prior.iter().enumerate().filter(|(_, t)| **t != Tm::None)
        .map(|(i, t)| format!("v{}->{}", i + 1, show(t))).collect::<Vec<_>>().join(" ");
    format!("{}  prior{{{}}}", ps, pr)
}

pub fn props_of(case: &Value) -> Vec<&'static str> {
    let st = case["status"].as_str().unwrap_or("");
    if st != "ok" && st != "fail" { return vec![]; }
    match case["slice"].as_str().unwrap_or("") {
        "fn" => vec!["C13", "C17"],
        "arith" => vec!["C12"],
        "sess" => vec!["C06", "C08", "C09"],
        _ => vec!["C06", "C07", "C08", "C09", "C10"],
    }
}

pub fn replay(case: &Value) -> Vec<Obs> {
    let slice = case["slice"].as_str().unwrap_or("");
    let pairs_t = parse_pairs(case);
    let prior_t: Vec<Tm> = case["prior"].as_array().unwrap().iter().map(tm_from_json).collect();
    let exp_status = case["status"].as_str().unwrap();
    let exp_done = case["done"].as_u64().unwrap() as usize;
    let exp_res: Vec<Tm> = case["res"].as_array().unwrap().iter().map(tm_from_json).collect();
    let nvars = prior_t.len();
    let names = if prior_t.len() > 3 { ["$X", "$Y", "$Z", "$X", "$Y", "$Z", "$X", "$Y", "$Z"] } else { ["$X", "$Y", "$Z", "$W", "$V", "$U", "$T", "$S", "$R"] };
    let vars: Vec<Tm> = (1..=nvars).map(|i| Tm::Var(i, names[i - 1].to_string())).collect();
    let what = describe(&pairs_t, &prior_t);
    let mut obs = vec![];

    // cases the properties are silent about (occurs check needed, function outside its domain)
    if exp_status != "ok" && exp_status != "fail" { return vec![Obs::ok("SKIP", exp_status)]; }

    let pairs: Vec<(Unifiable, Unifiable)> = pairs_t.iter().map(|(l, r)| (build(l), build(r))).collect();
    let out = run_session(&pairs, build_ss(&prior_t), &vars);

    let has_anon = pairs_t.iter().any(|(l, r)| contains_anon(l) || contains_anon(r)) || prior_t.iter().any(contains_anon);
    let same_res = if slice == "arith" || slice == "fn" {
        out.res.iter().map(unsign_zero).collect::<Vec<_>>() == exp_res.iter().map(unsign_zero).collect::<Vec<_>>()
    } else { out.res == exp_res };
    let model_agrees = out.status == exp_status && out.done == exp_done && same_res;
    let detail = || format!("{} :: model {} done={} [{}] / impl {} done={} [{}] {}",
                            what, exp_status, exp_done, show_vec(&exp_res), out.status, out.done, show_vec(&out.res), out.note);

    let owner: &'static str = if slice == "fn" { "C13" } else if slice == "arith" { "C12" } else { "C06" };
    if model_agrees { obs.push(Obs::ok(owner, "result")); } else { obs.push(Obs::bad(owner, "result", detail())); }
    if slice == "fn" && pairs_t.iter().any(|(l, r)| mentions_fn(l, "join") || mentions_fn(r, "join")) {
        if model_agrees { obs.push(Obs::ok("C17", "join")); } else { obs.push(Obs::bad("C17", "join", detail())); }
    }
    let is_fn = slice == "fn" || slice == "arith";
    if has_anon && !is_fn {
        if model_agrees && !out.anon_bound { obs.push(Obs::ok("C09", "anon")); }
        else { obs.push(Obs::bad("C09", if out.anon_bound { "anon-bound" } else { "result" }, detail())); }
    }
    if !is_fn {
        if out.cycle || out.res.iter().any(|t| contains_bad(t, "cycle")) { obs.push(Obs::bad("C08", "cycle", detail())); }
        else { obs.push(Obs::ok("C08", "acyclic")); }
    }

    // C07: the implementation against itself, both orders
    if slice == "plain" || slice == "laws" {
        let swapped: Vec<(Unifiable, Unifiable)> = pairs.iter().map(|(l, r)| (r.clone(), l.clone())).collect();
        let out2 = run_session(&swapped, build_ss(&prior_t), &vars);
        if out2.status == out.status && out2.done == out.done && (out.status != "ok" || out2.res == out.res) {
            obs.push(Obs::ok("C07", "symmetric"));
        } else {
            obs.push(Obs::bad("C07", "asymmetric", format!("{} :: a=b {} [{}] / b=a {} [{}]",
                what, out.status, show_vec(&out.res), out2.status, show_vec(&out2.res))));
        }
    }

    // the same pair after the renaming applied to rules and queries (C07, C10)
    if (slice == "plain" || slice == "laws") && nvars <= 3 && prior_t.iter().all(|t| *t == Tm::None) {
        set_var_id(10);
        let mut map = VarMap::new();
        let renamed = catch_unwind(AssertUnwindSafe(|| {
            pairs.iter().map(|(l, r)| (l.clone().recreate_variables(&mut map), r.clone().recreate_variables(&mut map))).collect::<Vec<_>>()
        }));
        match renamed {
            Err(_) => obs.push(Obs::bad("C10", "rename-panic", what.clone())),
            Ok(rp) => {
                let rvars: Vec<Tm> = (0..nvars).map(|i| match map.get(names[i]) {
                    Some(id) => Tm::Var(*id, names[i].to_string()),
                    None => Tm::Var(1000 + i, names[i].to_string()),
                }).collect();
                let o1 = run_session(&rp, Rc::new(vec![]), &rvars);
                let sw: Vec<(Unifiable, Unifiable)> = rp.iter().map(|(l, r)| (r.clone(), l.clone())).collect();
                let o2 = run_session(&sw, Rc::new(vec![]), &rvars);
                if o1.status == o2.status && (o1.status != "ok" || o1.res == o2.res) { obs.push(Obs::ok("C07", "symmetric-renamed")); }
                else { obs.push(Obs::bad("C07", "asymmetric-renamed", format!("{} (renamed) :: a=b {} [{}] / b=a {} [{}]",
                        what, o1.status, show_vec(&o1.res), o2.status, show_vec(&o2.res)))); }
                if o1.status == exp_status && o1.res == exp_res { obs.push(Obs::ok("C10", "renamed-unify")); }
                else { obs.push(Obs::bad("C10", "renamed-unify", format!("{} (renamed) :: model {} [{}] / impl {} [{}]",
                        what, exp_status, show_vec(&exp_res), o1.status, show_vec(&o1.res)))); }
            }
        }
    }
    obs
}

fn mentions_fn(t: &Tm, name: &str) -> bool {
    match t {
        Tm::Fn(f, a) => f == name || a.iter().any(|x| mentions_fn(x, name)),
        Tm::Cx(_, a) => a.iter().any(|x| mentions_fn(x, name)),
        Tm::List(a, _) => a.iter().any(|x| mentions_fn(x, name)),
        _ => false,
    }
}
