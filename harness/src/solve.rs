//! Replay of Solver.tla / SLD.tla behaviours: a program, a query, and what
//! every successive request for a solution must observe (C01-C05, C08, C10, C11).

use crate::capture;
use crate::term::*;
use crate::Obs;
use serde_json::Value;
use std::panic::{catch_unwind, AssertUnwindSafe};
use std::rc::Rc;
use suiron::*;

pub fn build_goal(g: &Value) -> Goal {
    match g["g"].as_str().unwrap_or("") {
        "call" => Goal::ComplexGoal(build(&tm_from_json(&g["t"]))),
        "bip" => {
            let f = g["f"].as_str().unwrap().to_string();
            let args: Vec<Unifiable> = g["a"].as_array().unwrap().iter().map(|t| build(&tm_from_json(t))).collect();
            if f == "!" || f == "fail" || f == "nl" { Goal::BuiltInGoal(BuiltInPredicate::new(f, None)) }
            else { Goal::BuiltInGoal(BuiltInPredicate::new(f, Some(args))) }
        }
        "and" => Goal::OperatorGoal(Operator::And(g["gs"].as_array().unwrap().iter().map(build_goal).collect())),
        "or" => Goal::OperatorGoal(Operator::Or(g["gs"].as_array().unwrap().iter().map(build_goal).collect())),
        "not" => Goal::OperatorGoal(Operator::Not(g["gs"].as_array().unwrap().iter().map(build_goal).collect())),
        "time" => Goal::OperatorGoal(Operator::Time(g["gs"].as_array().unwrap().iter().map(build_goal).collect())),
        _ => Goal::Nil,
    }
}

pub fn build_kb(prog: &Value) -> KnowledgeBase {
    let mut kb = KnowledgeBase::new();
    for cl in prog.as_array().unwrap() {
        let head = build(&tm_from_json(&cl["head"]));
        let body = build_goal(&cl["body"]);
        add_rules(&mut kb, vec![Rule { head, body }]);
    }
    kb
}

pub fn show_goal(g: &Value) -> String {
    match g["g"].as_str().unwrap_or("") {
        "call" => show(&tm_from_json(&g["t"])),
        "bip" => {
            let f = g["f"].as_str().unwrap();
            let a: Vec<String> = g["a"].as_array().unwrap().iter().map(|t| show(&tm_from_json(t))).collect();
            if f == "unify" && a.len() == 2 { format!("{} = {}", a[0], a[1]) }
            else if a.is_empty() { f.to_string() } else { format!("{}({})", f, a.join(", ")) }
        }
        "and" => g["gs"].as_array().unwrap().iter().map(|x| { let s = show_goal(x); if x["g"] == "or" { format!("({})", s) } else { s } }).collect::<Vec<_>>().join(", "),
        "or" => g["gs"].as_array().unwrap().iter().map(|x| { let s = show_goal(x); if x["g"] == "and" || x["g"] == "or" { format!("({})", s) } else { s } }).collect::<Vec<_>>().join(" ; "),
        "not" => format!("not({})", show_goal(&g["gs"][0])),
        "time" => format!("time({})", show_goal(&g["gs"][0])),
        _ => String::new(),
    }
}
pub fn show_clauses(prog: &Value) -> Vec<String> {
    prog.as_array().unwrap().iter().map(|cl| {
        let h = show(&tm_from_json(&cl["head"]));
        (if cl["body"]["g"] == "nil" { format!("{}.", h) } else { format!("{} :- {}.", h, show_goal(&cl["body"])) }).replace("_0", "")
    }).collect()
}
pub fn show_prog(prog: &Value) -> String { show_clauses(prog).join(" ") }

#[derive(Debug, Clone, PartialEq)]
pub struct Seg { pub out: String, pub some: bool, pub ans: Vec<Tm> }

fn parse_expect(case: &Value) -> Vec<Seg> { parse_expect_of(&case["expect"]) }
pub fn parse_expect_of(expect: &Value) -> Vec<Seg> {
    expect.as_array().unwrap().iter().map(|s| Seg {
        out: s["out"].as_array().unwrap().iter().map(|x| x.as_str().unwrap()).collect::<Vec<_>>().concat(),
        some: s["some"].as_bool().unwrap(),
        ans: s["ans"].as_array().unwrap().iter().map(tm_from_json).collect(),
    }).collect()
}

pub struct Run { pub segs: Vec<Seg>, pub cycle: bool, pub panic: Option<String>, pub raw: Vec<Option<Unifiable>>,
                 /// an answer's bindings used a variable id above the id counter: the next renaming would reuse it
                 pub stale_id: Option<String> }

fn max_id(t: &Tm) -> usize {
    match t {
        Tm::Var(id, _) => *id,
        Tm::Cx(_, a) | Tm::Fn(_, a) => a.iter().map(max_id).max().unwrap_or(0),
        Tm::List(a, tl) => a.iter().map(max_id).max().unwrap_or(0).max(tl.as_ref().map_or(0, |x| max_id(x))),
        _ => 0,
    }
}

/// Ask the real engine `n` times.
pub fn run_query(kb: &KnowledgeBase, query: &Goal, n: usize) -> Run {
    let q = Rc::new(query.clone());
    let args: Vec<Tm> = match &*q { Goal::ComplexGoal(Unifiable::SComplex(v)) => v[1..].iter().map(project).collect(), _ => vec![] };
    let sn = make_base_node(Rc::clone(&q), kb);
    let mut run = Run { segs: vec![], cycle: false, panic: None, raw: vec![], stale_id: None };
    capture::take();
    for _ in 0..n {
        let r = catch_unwind(AssertUnwindSafe(|| next_solution(Rc::clone(&sn)).map(|s| (*s).clone())));
        let out = capture::take();
        match r {
            Ok(Some(ss)) => {
                if has_cycle(&ss) { run.cycle = true; }
                // C10: the id counter must be above every id in use, or the next clause renamed gets a used id
                let counter = get_var_id();
                let mut top = 0;
                for (i, b) in ss.iter().enumerate() { if let Some(b) = b { top = top.max(i).max(max_id(&project(b))); } }
                if top > counter && run.stale_id.is_none() {
                    run.stale_id = Some(format!("variable id {} is in use in the answer's bindings but the id counter is {}", top, counter));
                }
                let ans = canon(&args.iter().map(|t| resolve(t, &ss)).collect::<Vec<_>>());
                if ans.iter().any(|t| contains_bad(t, "cycle")) { run.cycle = true; run.raw.push(None); }
                else { run.raw.push(catch_unwind(AssertUnwindSafe(|| q.replace_variables(&ss))).ok()); }
                run.segs.push(Seg { out, some: true, ans });
            }
            Ok(None) => { run.raw.push(None); run.segs.push(Seg { out, some: false, ans: vec![] }); }
            Err(e) => {
                run.panic = Some(e.downcast_ref::<String>().cloned().or_else(|| e.downcast_ref::<&str>().map(|s| s.to_string())).unwrap_or_default());
                run.segs.push(Seg { out, some: false, ans: vec![Tm::Bad("panic".into())] });
                break;
            }
        }
    }
    run
}

pub fn strip_ids_pub(g: &Value) -> Value { strip_ids(g) }
pub fn number_by_name_pub(t: &Tm) -> Tm { number_by_name(t) }
pub fn show_segs(s: &[Seg]) -> String {
    s.iter().map(|g| format!("{}{}", if g.out.is_empty() { String::new() } else { format!("{:?}+", g.out) },
        if g.some { format!("({})", show_vec(&g.ans).replace(" ; ", ", ")) } else { "none".into() })).collect::<Vec<_>>().join(" ")
}

/// The engine's own text rendering of a term, written independently (for solve_all).
pub fn render(t: &Tm) -> String {
    match t {
        Tm::Atom(s) => s.clone(),
        Tm::Int(n, e) => format!("{}", int_value(*n, *e).unwrap_or(0)),
        Tm::Flt(n, e, s) => format!("{}", flt_value(*n, *e, s)),
        Tm::Var(id, name) => if *id == 0 { name.clone() } else { format!("{}_{}", name, id) },
        Tm::Anon => "$_".into(),
        Tm::Cx(f, a) | Tm::Fn(f, a) => format!("{}({})", f, a.iter().map(render).collect::<Vec<_>>().join(", ")),
        Tm::List(a, tl) => {
            let els = a.iter().map(render).collect::<Vec<_>>().join(", ");
            match tl { Some(t) => if a.is_empty() { format!("[{}]", render(t)) } else { format!("[{} | {}]", els, render(t)) }, None => format!("[{}]", els) }
        }
        other => format!("{:?}", other),
    }
}

pub fn owner_of(slice: &str) -> &'static str {
    match slice { "cut" => "C02", "not" => "C03", "print" => "C04", "time" => "X01", "anon" => "C09", _ => "C01" }
}

/// the text time(...) writes ("3 seconds 141 microseconds ") as the specification's token
fn mask_time(s: &str) -> String {
    let mut out = String::new();
    let mut rest = s;
    loop {
        // find "<digits> second[s] <digits> microseconds "
        let bytes = rest.as_bytes();
        let mut found = None;
        let mut i = 0;
        while i < bytes.len() {
            if bytes[i].is_ascii_digit() {
                let mut j = i; while j < bytes.len() && bytes[j].is_ascii_digit() { j += 1; }
                let tail = &rest[j..];
                let after = if tail.starts_with(" seconds ") { Some(j + 9) } else if tail.starts_with(" second ") { Some(j + 8) } else { None };
                if let Some(k) = after {
                    let mut m = k; while m < bytes.len() && bytes[m].is_ascii_digit() { m += 1; }
                    if m > k && rest[m..].starts_with(" microseconds ") { found = Some((i, m + 14)); break; }
                }
                i = j;
            } else { i += 1; }
        }
        match found { Some((a, b)) => { out.push_str(&rest[..a]); out.push_str("<time>"); rest = &rest[b..]; } None => { out.push_str(rest); break; } }
    }
    out
}

pub fn props_of(case: &Value) -> Vec<&'static str> {
    if case["status"].as_str() != Some("ok") { return vec![]; }
    let slice = case["slice"].as_str().unwrap_or("");
    if slice == "time" { return vec!["X01", "C05"]; }
    let mut v = vec![owner_of(slice), "C05", "C11", "C10"];
    if slice == "alias" || slice == "deep" { v.push("C08"); }
    if slice != "print" { v.push("C04"); }
    if slice != "deep" { v.push("C19"); v.push("C21"); }
    if slice == "lists" { v.push("C16"); v.push("C07"); }
    v
}

pub fn replay(case: &Value) -> Vec<Obs> {
    if case["status"].as_str() != Some("ok") { return vec![Obs::ok("SKIP", "out")]; }
    let slice = case["slice"].as_str().unwrap_or("");
    let owner = owner_of(slice);
    let expect = parse_expect(case);
    let reasks = case["reasks"].as_u64().unwrap_or(0) as usize;
    let n = expect.len() + reasks;
    let qt = tm_from_json(&case["query"]);
    let what = format!("{}  ?- {}", show_prog(&case["prog"]), show(&qt).replace("_0", ""));
    let mut obs = vec![];

    // the format-string table of the specification must describe the real strings
    if let Some(fm) = case["fmt"].as_object() {
        for (k, v) in fm {
            let pieces: Vec<&str> = v.as_array().unwrap().iter().map(|x| x.as_str().unwrap()).collect();
            if k.split("%s").collect::<Vec<_>>() != pieces { return vec![Obs::bad("TOOL", "fmt-table", k.clone())]; }
        }
    }

    let kb = build_kb(&case["prog"]);
    start_query();
    let qterms: Vec<Unifiable> = match build(&qt) { Unifiable::SComplex(v) => v, _ => vec![] };
    let query = make_query(qterms.clone());

    // C10: the query constructor renames the query's variables 1..k consistently
    {
        let got = match &query { Goal::ComplexGoal(u) => project(u), _ => Tm::Bad("query".into()) };
        let mut ids = vec![]; collect_ids(&got, &mut ids);
        // (fresh: non-zero ids below the id counter; their numbering is the constructor's business)
        let fresh = ids.iter().all(|i| *i >= 1 && *i <= get_var_id());
        let same_shape = canon(&[got.clone()]) == canon(&[number_by_name(&qt)]);
        if fresh && same_shape { obs.push(Obs::ok("C10", "make_query")); }
        else { obs.push(Obs::bad("C10", "make_query", format!("{} :: renamed query {}", what, show(&got)))); }
    }

    let mut run = run_query(&kb, &query, n);
    if slice == "time" { for sg in run.segs.iter_mut() { sg.out = mask_time(&sg.out); } }
    let exp_at = |i: usize| -> Seg { if i < expect.len() { expect[i].clone() } else { Seg { out: String::new(), some: false, ans: vec![] } } };
    let first_part_ok = run.panic.is_none() && (0..expect.len()).all(|i| i < run.segs.len() && run.segs[i].some == exp_at(i).some && run.segs[i].ans == exp_at(i).ans);
    let out_ok = (0..expect.len()).all(|i| i < run.segs.len() && run.segs[i].out == exp_at(i).out);
    let detail = format!("{} :: reference {} / engine {}{}", what, show_segs(&expect), show_segs(&run.segs),
                         run.panic.as_ref().map(|p| format!(" PANIC {}", p)).unwrap_or_default());
    // C07: head / goal unification with a list pattern on either side (the list programs: open and closed lists in heads,
    // open and closed lists in goals): the answers are those of the reference whichever side the pattern is on
    if slice == "lists" {
        if first_part_ok { obs.push(Obs::ok("C07", "head-goal-list-patterns")); } else { obs.push(Obs::bad("C07", "head-goal-list-patterns", format!("{} :: reference {} / engine {}", what, show_segs(&expect), show_segs(&run.segs)))); }
    }
    // C16: append() as a goal of a clause body (its list arguments were renamed with the clause): same verdict as the answers
    if slice == "lists" { if let Tm::Cx(f, _) = &qt { if ["apb", "nest", "nest2"].contains(&f.as_str()) {
        if first_part_ok { obs.push(Obs::ok("C16", "append-in-clause-body")); } else { obs.push(Obs::bad("C16", "append-in-clause-body", format!("{} :: reference {} / engine {}", what, show_segs(&expect), show_segs(&run.segs)))); }
    } } }
    if first_part_ok && (out_ok || owner == "C04") { obs.push(Obs::ok(owner, "answers")); }
    else if owner != "C04" { obs.push(Obs::bad(owner, if first_part_ok { "output" } else { "answers" }, detail.clone())); }
    if expect.iter().any(|s| !s.out.is_empty()) || owner == "C04" {
        if first_part_ok && out_ok { obs.push(Obs::ok("C04", "output")); } else { obs.push(Obs::bad("C04", "output", detail.clone())); }
    }
    // C05: asked again after "no more"
    if run.panic.is_none() && run.segs.len() == n {
        // the property itself: from the engine's FIRST "no more" on (wherever it comes, also when it comes
        // too early), every later request is a silent "no more"
        let first_none = run.segs.iter().position(|s| !s.some).unwrap_or(n);
        let stays = (first_none + 1..n).all(|i| !run.segs[i].some && run.segs[i].out.is_empty());
        let again_ok = (expect.len()..n).all(|i| !run.segs[i].some && run.segs[i].out.is_empty());
        if again_ok && stays { obs.push(Obs::ok("C05", "re-ask")); }
        else { obs.push(Obs::bad("C05", "re-ask", format!("{} :: after \"no more\" the engine answered {}", what, show_segs(&run.segs[first_none.min(expect.len())..])))); }
    }
    match &run.stale_id {
        None => obs.push(Obs::ok("C10", "ids-in-use-below-counter")),
        Some(d) => obs.push(Obs::bad("C10", "id-in-use-not-fresh", format!("{} :: {}", what, d))),
    }
    // C10: clauses fetched one after the other in the middle of this process's search state (get_rule is what the
    // clause loop calls): within each renamed clause same name <=> same id, every id is fresh (above the id counter
    // read just before the fetch), and everything else about the clause is unchanged
    {
        let prog = case["prog"].as_array().unwrap();
        let mut order: Vec<usize> = (0..prog.len()).collect();
        order.extend((0..prog.len()).rev());
        let mut idx_of: std::collections::HashMap<String, usize> = std::collections::HashMap::new();
        let mut index_in_pred: Vec<(String, usize)> = vec![];
        for cl in prog {
            let h = tm_from_json(&cl["head"]);
            let key = match &h { Tm::Cx(f, a) => format!("{}/{}", f, a.len()), _ => String::new() };
            let n = idx_of.entry(key.clone()).or_insert(0);
            index_in_pred.push((key, *n));
            *n += 1;
        }
        let mut bad: Option<String> = None;
        for &ci in &order {
            let (key, k) = &index_in_pred[ci];
            let before = get_var_id();
            let r = catch_unwind(AssertUnwindSafe(|| get_rule(&kb, key, *k)));
            let r = match r { Ok(r) => r, Err(_) => { bad = Some(format!("get_rule({}, {}) panicked", key, k)); break; } };
            let after = get_var_id();
            let head_t = project(&r.head);
            let body_j = crate::syntax::project_goal(&r.body);
            let mut pairs: Vec<(String, usize)> = vec![];
            collect_pairs(&head_t, &mut pairs);
            collect_goal_pairs(&body_j, &mut pairs);
            let consistent = pairs.iter().all(|(n1, i1)| pairs.iter().all(|(n2, i2)| (n1 == n2) == (i1 == i2)));
            let fresh = pairs.iter().all(|(_, id)| *id > before && *id <= after);
            let want_head = canon(&[number_by_name(&tm_from_json(&prog[ci]["head"]))]);
            let shape = canon(&[head_t.clone()]) == want_head && strip_ids(&body_j) == strip_ids(&crate::syntax::norm_goal(&prog[ci]["body"]));
            if !(consistent && fresh && shape) {
                bad = Some(format!("{} :: clause {} of {} fetched with the id counter at {}: {} :- {} (same name <=> same id: {}, ids fresh: {}, rest unchanged: {})",
                    what, k, key, before, show(&head_t), body_j, consistent, fresh, shape));
                break;
            }
        }
        match bad { None => obs.push(Obs::ok("C10", "get_rule-sequence")), Some(d) => obs.push(Obs::bad("C10", "get_rule-sequence", d)) }
    }
    // C10: the id counter is process-global state -- a query built (renamed) on one thread and solved on another
    // must not get clause variables that coincide with the query's own: same answers as on one thread
    if (slice == "lists" || slice == "alias") && first_part_ok {
        start_query();
        let query_t = make_query(qterms.clone());                       // built on this thread
        let prog_v = case["prog"].clone();
        let n_ask = expect.len();
        let args_t: Vec<Tm> = match &query_t { Goal::ComplexGoal(Unifiable::SComplex(v)) => v[1..].iter().map(project).collect(), _ => vec![] };
        let got: Result<Vec<(bool, Vec<Tm>)>, ()> = std::thread::scope(|sc| {
            sc.spawn(|| {
                crate::syntax::install_panic_hook();
                let kb2 = build_kb(&prog_v);
                let sn = make_base_node(Rc::new(query_t.clone()), &kb2);      // solved on another one
                let mut v = vec![];
                for _ in 0..n_ask {
                    match catch_unwind(AssertUnwindSafe(|| next_solution(Rc::clone(&sn)).map(|s| (*s).clone()))) {
                        Ok(Some(ss)) => v.push((true, canon(&args_t.iter().map(|t| resolve(t, &ss)).collect::<Vec<_>>()))),
                        Ok(None) => v.push((false, vec![])),
                        Err(_) => return Err(()),
                    }
                }
                Ok(v)
            }).join().unwrap_or(Err(()))
        });
        capture::take();
        let same = match &got { Ok(v) => v.len() == expect.len() && (0..expect.len()).all(|i| v[i].0 == exp_at(i).some && v[i].1 == exp_at(i).ans), Err(_) => false };
        if same { obs.push(Obs::ok("C10", "query-built-on-another-thread")); }
        else { obs.push(Obs::bad("C10", "query-built-on-another-thread", format!("{} :: reference {} / solved on a second thread {:?}", what, show_segs(&expect),
                    got.map(|v| v.iter().map(|(s, a)| if *s { format!("({})", show_vec(a)) } else { "none".into() }).collect::<Vec<_>>().join(" "))))); }
    }
    // C10: two searches alive at the same time (both queries built first, then asked in turn): the ids a clause gets
    // in one search must not be in use in that search, whatever the other one did to the id counter in between
    if (slice == "lists" || slice == "alias" || slice == "andor") && first_part_ok && expect.len() >= 2 {
        let n_ask = expect.len();
        let mut bad: Option<String> = None;
        for schedule in ["in turn", "second one behind"] {
            start_query();
            let qa = Rc::new(make_query(qterms.clone()));
            let qb = Rc::new(make_query(qterms.clone()));
            let args_of = |q: &Goal| -> Vec<Tm> { match q { Goal::ComplexGoal(Unifiable::SComplex(v)) => v[1..].iter().map(project).collect(), _ => vec![] } };
            let (aa, ab) = (args_of(&qa), args_of(&qb));
            let sa = make_base_node(Rc::clone(&qa), &kb);
            let sb = make_base_node(Rc::clone(&qb), &kb);
            let mut order: Vec<u8> = vec![];
            if schedule == "in turn" { for _ in 0..n_ask { order.push(0); order.push(1); } }
            else { order.push(0); for _ in 1..n_ask { order.push(0); order.push(1); } order.push(1); }
            let (mut ga, mut gb): (Vec<(bool, Vec<Tm>)>, Vec<(bool, Vec<Tm>)>) = (vec![], vec![]);
            let mut panicked = false;
            for who in order {
                let (sn, args, got) = if who == 0 { (&sa, &aa, &mut ga) } else { (&sb, &ab, &mut gb) };
                match catch_unwind(AssertUnwindSafe(|| next_solution(Rc::clone(sn)).map(|s| (*s).clone()))) {
                    Ok(Some(ss)) => got.push((true, canon(&args.iter().map(|t| resolve(t, &ss)).collect::<Vec<_>>()))),
                    Ok(None) => got.push((false, vec![])),
                    Err(_) => { panicked = true; break; }
                }
            }
            capture::take();
            let same = |g: &Vec<(bool, Vec<Tm>)>| g.len() == n_ask && (0..n_ask).all(|i| g[i].0 == exp_at(i).some && g[i].1 == exp_at(i).ans);
            if panicked || !same(&ga) || !same(&gb) {
                let sh = |g: &Vec<(bool, Vec<Tm>)>| g.iter().map(|(s, a)| if *s { format!("({})", show_vec(a)) } else { "none".into() }).collect::<Vec<_>>().join(" ");
                bad = Some(format!("{} :: two searches of the query asked {}: reference {} / first {} / second {}{}", what, schedule, show_segs(&expect), sh(&ga), sh(&gb), if panicked { " PANIC" } else { "" }));
                break;
            }
        }
        match bad { None => obs.push(Obs::ok("C10", "two-live-searches")), Some(d) => obs.push(Obs::bad("C10", "two-live-searches", d)) }
    }
    // C10: the application stops the query between two answers (stop_query() is public) and goes on the way solve()
    // does -- start_query_timer(), next_solution(), cancel_timer(): the search continues where it was, and the ids of
    // the clauses fetched from then on are not in use in it (the id counter stays above every id of the bindings)
    if (slice == "lists" || slice == "alias" || slice == "andor") && first_part_ok && expect.len() >= 2 {
        start_query();
        let q = Rc::new(make_query(qterms.clone()));
        let args: Vec<Tm> = match &*q { Goal::ComplexGoal(Unifiable::SComplex(v)) => v[1..].iter().map(project).collect(), _ => vec![] };
        let sn = make_base_node(Rc::clone(&q), &kb);
        let mut bad: Option<String> = None;
        for i in 0..expect.len() {
            if i >= 1 { stop_query(); }
            let r = catch_unwind(AssertUnwindSafe(|| { let t = start_query_timer(5000); let r = next_solution(Rc::clone(&sn)).map(|s| (*s).clone()); cancel_timer(t); r }));
            match r {
                Ok(Some(ss)) => {
                    let counter = get_var_id();
                    let mut top = 0;
                    for (k, b) in ss.iter().enumerate() { if let Some(b) = b { top = top.max(k).max(max_id(&project(b))); } }
                    let ans = canon(&args.iter().map(|t| resolve(t, &ss)).collect::<Vec<_>>());
                    if top > counter { bad = Some(format!("{} :: after stop_query() and start_query_timer(), answer {}: variable id {} is in use in the bindings but the id counter is {}", what, i + 1, top, counter)); break; }
                    if !(exp_at(i).some && ans == exp_at(i).ans) { bad = Some(format!("{} :: stopped between the answers and continued: answer {} is ({}) instead of {}", what, i + 1, show_vec(&ans), show_segs(&[exp_at(i)]))); break; }
                }
                Ok(None) => { if exp_at(i).some { bad = Some(format!("{} :: stopped between the answers and continued: no answer {}", what, i + 1)); break; } }
                Err(_) => { bad = Some(format!("{} :: stopped between the answers and continued: panic", what)); break; }
            }
        }
        capture::take();
        match bad { None => obs.push(Obs::ok("C10", "continued-after-stop_query")), Some(d) => obs.push(Obs::bad("C10", "continued-after-stop_query", d)) }
    }
    if slice == "alias" || slice == "deep" {
        if run.cycle { obs.push(Obs::bad("C08", "cycle", detail.clone())); } else { obs.push(Obs::ok("C08", "acyclic")); }
    }

    // C01: replace_variables() on the query -- what solve / solve_all format -- gives the answer's value:
    // equal to the resolved arguments up to renaming of unbound variables (aliasing included)
    if first_part_ok && owner != "X01" {
        let mut bad = None;
        for (i, r) in run.raw.iter().enumerate().take(expect.len()) {
            if !run.segs[i].some { continue; }
            match r {
                Some(Unifiable::SComplex(v)) => {
                    let got = canon(&v[1..].iter().map(|u| flatten_tails(&project(u))).collect::<Vec<_>>());
                    if got != run.segs[i].ans { bad = Some(format!("{} :: answer {}: replace_variables gives ({}) for ({})", what, i + 1, show_vec(&got), show_vec(&run.segs[i].ans))); break; }
                }
                _ => { bad = Some(format!("{} :: answer {}: replace_variables panicked or returned no complex term", what, i + 1)); break; }
            }
        }
        if owner == "C01" || bad.is_some() {
            match bad { None => obs.push(Obs::ok("C01", "replace_variables")), Some(d) => obs.push(Obs::bad("C01", "replace_variables", d)) }
        }
    }

    // C01: solve_all reports the same answers as `$Var = value`
    if owner == "C01" && first_part_ok {
        start_query();
        let query2 = make_query(qterms.clone());
        let sn = make_base_node(Rc::new(query2.clone()), &kb);
        let all = catch_unwind(AssertUnwindSafe(|| solve_all(sn)));
        capture::take();
        let names: Vec<Option<String>> = match &qt { Tm::Cx(_, a) => a.iter().map(|t| if let Tm::Var(_, n) = t { Some(n.clone()) } else { None }).collect(), _ => vec![] };
        let mut want: Vec<String> = vec![];
        for r in run.raw.iter().take(expect.len()) {
            if let Some(Unifiable::SComplex(v)) = r {
                let parts: Vec<String> = names.iter().enumerate().filter_map(|(i, nm)| nm.as_ref().map(|nm| format!("{} = {}", nm, render(&project(&v[i + 1]))))).collect();
                want.push(parts.join(", "));
            }
        }
        match all {
            Ok(got) if got == want => obs.push(Obs::ok("C01", "solve_all")),
            Ok(got) => obs.push(Obs::bad("C01", "solve_all", format!("{} :: solve_all {:?} / expected {:?}", what, got, want))),
            Err(_) => obs.push(Obs::bad("C01", "solve_all", format!("{} :: solve_all panicked", what))),
        }
    }

    // The same program as SOURCE TEXT: every clause through parse_rule, the whole of it through load_kb_from_file,
    // the query through parse_query.  C19: the rule parser gives the clause the specification wrote down; C21: the file
    // gives the same knowledge base as the rules one by one; and (slice owner) the search over the LOADED knowledge
    // base observes what the reference observes.
    if slice != "deep" && has_source_text(&case["prog"]) {
        let texts = show_clauses(&case["prog"]);
        let built = crate::reader::structure(&kb);
        let mut kb_rules = KnowledgeBase::new();
        let mut parsed_all = true;
        for t in &texts {
            match catch_unwind(AssertUnwindSafe(|| parse_rule(t))) {
                Ok(Ok(r)) => add_rules(&mut kb_rules, vec![r]),
                Ok(Err(e)) => { parsed_all = false; obs.push(Obs::bad("C19", "program-text", format!("{} :: parse_rule({:?}) -> error {}", what, t, e.replace('\n', " ")))); break; }
                Err(_) => { parsed_all = false; obs.push(Obs::bad("C19", "program-text", format!("{} :: parse_rule({:?}) panicked", what, t))); break; }
            }
        }
        if parsed_all {
            let from_rules = crate::reader::structure(&kb_rules);
            if from_rules == built { obs.push(Obs::ok("C19", "program-text")); }
            else { obs.push(Obs::bad("C19", "program-text", format!("{} :: the rule parser gives {:?} instead of {:?}", what, from_rules, built))); }
            let path = format!("solve_tmp_{}.txt", std::process::id());
            let mut text = texts.join("\n"); text.push('\n');
            if std::fs::write(&path, &text).is_err() { return vec![Obs::bad("TOOL", "write", path)]; }
            let mut kb_file = KnowledgeBase::new();
            let res = catch_unwind(AssertUnwindSafe(|| load_kb_from_file(&mut kb_file, &path)));
            let _ = std::fs::remove_file(&path);
            match res {
                Ok(None) if crate::reader::structure(&kb_file) == from_rules && format_kb(&kb_file) == format_kb(&kb_rules) => {
                    obs.push(Obs::ok("C21", "program-file"));
                    if from_rules == built && first_part_ok {
                        let qtext = show(&qt).replace("_0", "");
                        match catch_unwind(AssertUnwindSafe(|| parse_query(&qtext))) {
                            Ok(Ok(q3)) => {
                                let mut r3 = run_query(&kb_file, &q3, expect.len());
                                if slice == "time" { for sg in r3.segs.iter_mut() { sg.out = mask_time(&sg.out); } }
                                let same = r3.panic.is_none() && r3.segs.len() == expect.len() && (0..expect.len()).all(|i| r3.segs[i].some == exp_at(i).some && r3.segs[i].ans == exp_at(i).ans && r3.segs[i].out == exp_at(i).out);
                                if same { obs.push(Obs::ok(owner, "answers-from-source-text")); }
                                else { obs.push(Obs::bad(owner, "answers-from-source-text", format!("{} :: loaded from its source text: reference {} / engine {}", what, show_segs(&expect), show_segs(&r3.segs)))); }
                            }
                            other => obs.push(Obs::bad("C19", "query-text", format!("{} :: parse_query({:?}) -> {:?}", what, qtext, other.map(|r| r.map(|g| g.to_string()))))),
                        }
                    }
                }
                Ok(None) => obs.push(Obs::bad("C21", "program-file", format!("{} :: file {:?} loaded as {:?} instead of {:?}", what, text, format_kb(&kb_file).replace('\n', " | "), format_kb(&kb_rules).replace('\n', " | ")))),
                Ok(Some(e)) => obs.push(Obs::bad("C21", "program-file", format!("{} :: file {:?} rejected: {}", what, text, e.replace('\n', " ")))),
                Err(_) => obs.push(Obs::bad("C21", "program-file", format!("{} :: file {:?}: load_kb_from_file panicked", what, text))),
            }
        }
    }

    // C11: alpha-variants of the program observe the same
    if let Some(vars) = case["variants"].as_array() {
        let mut bad = None;
        for (vi, vp) in vars.iter().enumerate() {
            let kb2 = build_kb(vp);
            start_query();
            let q2 = make_query(qterms.clone());
            let r2 = run_query(&kb2, &q2, expect.len());
            let mut same = r2.panic.is_none() && r2.segs.len() == expect.len() && (0..expect.len()).all(|i| r2.segs[i] == exp_at(i));
            // ... and what solve / solve_all would print (replace_variables on the query) is the same answer too
            if same && slice != "time" {
                for (i, r) in r2.raw.iter().enumerate().take(expect.len()) {
                    if !r2.segs[i].some { continue; }
                    match r {
                        Some(Unifiable::SComplex(v)) => {
                            let got = canon(&v[1..].iter().map(|u| flatten_tails(&project(u))).collect::<Vec<_>>());
                            if got != r2.segs[i].ans { same = false; }
                        }
                        _ => { same = false; }
                    }
                }
            }
            if !same { bad = Some(format!("variant {} {}  ?- {} :: reference {} / engine {}", vi + 1, show_prog(vp), show(&qt).replace("_0", ""), show_segs(&expect), show_segs(&r2.segs))); break; }
        }
        match bad { None => obs.push(Obs::ok("C11", "alpha-variants")), Some(d) => obs.push(Obs::bad("C11", "alpha-variants", d)) }
    }
    obs
}

/// Does the program (built by the specification from goal constructors) have a text in the documented syntax that
/// show_clauses writes?  Not when a conjunction sits directly inside a conjunction (or a disjunction inside one), when
/// `and` / `or` has fewer than two goals, when not(..) / time(..) is applied to a conjunction or disjunction, or when
/// a variable's name is not `$` followed by a letter.  (Decided on the specification's case alone.)
fn has_source_text(prog: &Value) -> bool {
    fn goal_ok(g: &Value) -> bool {
        let kind = g["g"].as_str().unwrap_or("");
        let kids: Vec<&Value> = g["gs"].as_array().map(|a| a.iter().collect()).unwrap_or_default();
        match kind {
            "and" | "or" => kids.len() >= 2 && kids.iter().all(|k| k["g"].as_str() != Some(kind) && goal_ok(k)),
            "not" | "time" => kids.len() == 1 && !matches!(kids[0]["g"].as_str(), Some("and") | Some("or")) && goal_ok(kids[0]),
            "call" => term_ok(&g["t"]),
            "bip" => g["a"].as_array().map(|a| a.iter().all(term_ok)).unwrap_or(true),
            _ => true,
        }
    }
    fn term_ok(t: &Value) -> bool {
        match t["k"].as_str() {
            Some("var") => { let n: Vec<char> = t["s"].as_str().unwrap_or("").chars().collect(); n.len() >= 2 && n[0] == '$' && n[1].is_alphabetic() }
            _ => ["a", "t"].iter().all(|k| t[*k].as_array().map(|a| a.iter().all(term_ok)).unwrap_or(true)),
        }
    }
    prog.as_array().unwrap().iter().all(|cl| term_ok(&cl["head"]) && goal_ok(&cl["body"]))
}

/// a list whose tail is (was replaced by) a list is that longer list: `[a | [b, c]]` is `[a, b, c]`
fn flatten_tails(t: &Tm) -> Tm {
    match t {
        Tm::Cx(f, a) => Tm::Cx(f.clone(), a.iter().map(flatten_tails).collect()),
        Tm::Fn(f, a) => Tm::Fn(f.clone(), a.iter().map(flatten_tails).collect()),
        Tm::List(a, tl) => {
            let mut els: Vec<Tm> = a.iter().map(flatten_tails).collect();
            match tl.as_ref().map(|x| flatten_tails(x)) {
                None => Tm::List(els, None),
                Some(Tm::List(a2, t2)) => { els.extend(a2); Tm::List(els, t2) }
                Some(o) => Tm::List(els, Some(Box::new(o))),
            }
        }
        o => o.clone(),
    }
}

fn collect_pairs(t: &Tm, acc: &mut Vec<(String, usize)>) {
    match t {
        Tm::Var(id, name) => acc.push((name.clone(), *id)),
        Tm::Cx(_, a) | Tm::Fn(_, a) => a.iter().for_each(|x| collect_pairs(x, acc)),
        Tm::List(a, tl) => { a.iter().for_each(|x| collect_pairs(x, acc)); if let Some(x) = tl { collect_pairs(x, acc) } }
        _ => {}
    }
}
fn collect_goal_pairs(g: &Value, acc: &mut Vec<(String, usize)>) {
    match g["g"].as_str().unwrap_or("") {
        "call" => collect_pairs(&tm_from_json(&g["t"]), acc),
        "bip" => g["a"].as_array().map(|a| a.iter().for_each(|t| collect_pairs(&tm_from_json(t), acc))).unwrap_or(()),
        "nil" => {}
        _ => g["gs"].as_array().map(|a| a.iter().for_each(|x| collect_goal_pairs(x, acc))).unwrap_or(()),
    }
}
/// a goal with every variable id set to 0 (the shape of the goal: everything but the ids)
fn strip_ids(g: &Value) -> Value {
    fn st(t: &Value) -> Value {
        match t {
            Value::Object(m) => {
                let mut o = serde_json::Map::new();
                for (k, v) in m { if k == "n" && m.get("k").and_then(|x| x.as_str()) == Some("var") { o.insert(k.clone(), Value::from(0)); } else { o.insert(k.clone(), st(v)); } }
                Value::Object(o)
            }
            Value::Array(a) => Value::Array(a.iter().map(st).collect()),
            o => o.clone(),
        }
    }
    st(g)
}

fn collect_ids(t: &Tm, acc: &mut Vec<usize>) {
    match t {
        Tm::Var(id, _) => acc.push(*id),
        Tm::Cx(_, a) | Tm::Fn(_, a) => a.iter().for_each(|x| collect_ids(x, acc)),
        Tm::List(a, tl) => { a.iter().for_each(|x| collect_ids(x, acc)); if let Some(x) = tl { collect_ids(x, acc) } }
        _ => {}
    }
}
/// give id-0 named variables distinct ids by name (so that canon() can compare shapes)
fn number_by_name(t: &Tm) -> Tm {
    fn go(t: &Tm, names: &mut Vec<String>) -> Tm {
        match t {
            Tm::Var(_, n) => { let i = match names.iter().position(|x| x == n) { Some(i) => i, None => { names.push(n.clone()); names.len() - 1 } }; Tm::Var(i + 1, n.clone()) }
            Tm::Cx(f, a) => Tm::Cx(f.clone(), a.iter().map(|x| go(x, names)).collect()),
            Tm::Fn(f, a) => Tm::Fn(f.clone(), a.iter().map(|x| go(x, names)).collect()),
            Tm::List(a, tl) => Tm::List(a.iter().map(|x| go(x, names)).collect(), tl.as_ref().map(|x| Box::new(go(x, names)))),
            o => o.clone(),
        }
    }
    go(t, &mut vec![])
}
