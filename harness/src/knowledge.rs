//! Replay of Knowledge.tla: a knowledge base built up in batches (X02).
//! Three ways of building it -- add_rules on constructed rules, add_rules on parsed rules, one source
//! file per batch loaded into the same knowledge base -- must each give, per predicate key, the clauses
//! in the order they were added, and the search over it must observe what the reference observes.

use crate::solve::{build_goal, parse_expect_of, run_query, show_clauses, show_segs};
use crate::term::*;
use crate::Obs;
use serde_json::Value;
use std::panic::{catch_unwind, AssertUnwindSafe};
use suiron::*;

pub fn props_of(_case: &Value) -> Vec<&'static str> { vec!["X02"] }

fn build_batch(batch: &Value, how: &str, n: usize) -> Result<Vec<Rule>, String> {
    match how {
        "constructed" => Ok(batch.as_array().unwrap().iter().map(|cl| Rule { head: build(&tm_from_json(&cl["head"])), body: build_goal(&cl["body"]) }).collect()),
        _ => {
            let mut v = vec![];
            for t in show_clauses(batch) {
                match catch_unwind(AssertUnwindSafe(|| parse_rule(&t))) { Ok(Ok(r)) => v.push(r), other => return Err(format!("batch {}: parse_rule({:?}) -> {:?}", n, t, other.map(|r| r.map(|x| x.to_string())))) }
            }
            Ok(v)
        }
    }
}

pub fn replay(case: &Value) -> Vec<Obs> {
    let batches = case["batches"].as_array().unwrap();
    let what: String = batches.iter().map(|b| format!("[{}]", show_clauses(b).join(" "))).collect::<Vec<_>>().join(" + ");
    let mut obs = vec![];
    for how in ["constructed", "parsed", "files"] {
        let mut kb = KnowledgeBase::new();
        let mut err: Option<String> = None;
        for (n, b) in batches.iter().enumerate() {
            if how == "files" {
                let path = format!("kb_tmp_{}_{}.txt", std::process::id(), n);
                let mut text = show_clauses(b).join("\n"); text.push('\n');
                if std::fs::write(&path, &text).is_err() { return vec![Obs::bad("TOOL", "write", path)]; }
                let r = catch_unwind(AssertUnwindSafe(|| load_kb_from_file(&mut kb, &path)));
                let _ = std::fs::remove_file(&path);
                match r { Ok(None) => {}, Ok(Some(e)) => { err = Some(format!("file {} rejected: {}", n + 1, e.replace('\n', " "))); break; } Err(_) => { err = Some(format!("loading file {} panicked", n + 1)); break; } }
            } else {
                match build_batch(b, how, n + 1) {
                    Ok(rules) => { if catch_unwind(AssertUnwindSafe(|| add_rules(&mut kb, rules))).is_err() { err = Some(format!("add_rules panicked on batch {}", n + 1)); break; } }
                    Err(e) => { err = Some(e); break; }
                }
            }
        }
        if let Some(e) = err { obs.push(Obs::bad("X02", &format!("build-{}", how), format!("{} :: {}", what, e))); continue; }
        // per key: count_rules, get_rule in order, nothing else in the knowledge base
        let mut bad: Option<String> = None;
        let keys = case["keys"].as_array().unwrap();
        let mut names: Vec<String> = vec![];
        start_query();
        for k in keys {
            let key = format!("{}/{}", k["functor"].as_str().unwrap(), k["arity"].as_u64().unwrap());
            names.push(key.clone());
            let want = k["clauses"].as_array().unwrap();
            let n = count_rules(&kb, &key);
            if n != want.len() { bad = Some(format!("count_rules({}) = {} instead of {}", key, n, want.len())); break; }
            for (i, cl) in want.iter().enumerate() {
                let r = match catch_unwind(AssertUnwindSafe(|| get_rule(&kb, &key, i))) { Ok(r) => r, Err(_) => { bad = Some(format!("get_rule({}, {}) panicked", key, i)); break; } };
                let got = format!("{} :- {}", serde_json::to_string(&tm_to_json(&canon(&[project(&r.head)])[0])).unwrap(), crate::solve::strip_ids_pub(&crate::syntax::project_goal(&r.body)));
                let exp = format!("{} :- {}", serde_json::to_string(&tm_to_json(&canon(&[crate::solve::number_by_name_pub(&tm_from_json(&cl["head"]))])[0])).unwrap(), crate::solve::strip_ids_pub(&crate::syntax::norm_goal(&cl["body"])));
                if got != exp { bad = Some(format!("get_rule({}, {}) = {} instead of {}", key, i, r, show_clauses(&Value::Array(vec![cl.clone()])).join(""))); break; }
            }
            if bad.is_some() { break; }
        }
        if bad.is_none() {
            let mut have: Vec<String> = kb.keys().cloned().collect(); have.sort(); names.sort();
            if have != names { bad = Some(format!("keys {:?} instead of {:?}", have, names)); }
            if count_rules(&kb, "nosuch/1") != 0 { bad = Some("count_rules(nosuch/1) is not 0".into()); }
        }
        // format_kb: the keys sorted, each followed by its clauses in order
        if bad.is_none() {
            let mut want = String::from("_____ Contents of Knowledge Base _____\n");
            let mut sorted: Vec<&Value> = keys.iter().collect();
            sorted.sort_by_key(|k| format!("{}/{}", k["functor"].as_str().unwrap(), k["arity"].as_u64().unwrap()));
            for k in sorted {
                want += &format!("{}/{}\n", k["functor"].as_str().unwrap(), k["arity"].as_u64().unwrap());
                for t in show_clauses(&k["clauses"]) { want += &format!("\t{}\n", t.replace(" ; ", "; ")); }
            }
            want += "______________________________________";
            let got = format_kb(&kb);
            if got != want { bad = Some(format!("format_kb gives {:?} instead of {:?}", got, want)); }
        }
        match bad { None => obs.push(Obs::ok("X02", &format!("kb-{}", how))), Some(d) => { obs.push(Obs::bad("X02", &format!("kb-{}", how), format!("{} :: {}", what, d))); continue; } }
        // the search over it
        let mut qbad: Option<String> = None;
        for q in case["queries"].as_array().unwrap() {
            let qt = tm_from_json(&q["query"]);
            let expect = parse_expect_of(&q["expect"]);
            start_query();
            let query = if how == "constructed" { match build(&qt) { Unifiable::SComplex(v) => make_query(v), _ => Goal::Nil } }
                        else { match parse_query(&show(&qt).replace("_0", "")) { Ok(g) => g, Err(e) => { qbad = Some(format!("parse_query: {}", e)); break; } } };
            let run = run_query(&kb, &query, expect.len());
            let same = run.panic.is_none() && run.segs.len() == expect.len() && (0..expect.len()).all(|i| run.segs[i] == expect[i]);
            if !same { qbad = Some(format!("?- {} :: reference {} / engine {}", show(&qt).replace("_0", ""), show_segs(&expect), show_segs(&run.segs))); break; }
        }
        match qbad { None => obs.push(Obs::ok("X02", &format!("answers-{}", how))), Some(d) => obs.push(Obs::bad("X02", &format!("answers-{}", how), format!("{} :: {}", what, d))) }
    }
    obs
}
