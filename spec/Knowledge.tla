----------------------------- MODULE Knowledge -----------------------------
(***************************************************************************)
(* The knowledge base as the program the search runs on.                   *)
(*                                                                         *)
(* A knowledge base is built up in BATCHES (add_rules with several rules,  *)
(* several calls, several source files loaded into the same knowledge      *)
(* base).  Its abstract state is a function from predicate keys            *)
(* ("functor/arity") to the sequence of that predicate's clauses.  One     *)
(* step of the machine is one turn of add_rules()'s loop: the next clause  *)
(* of the current batch is appended to the entry of its key.               *)
(*                                                                         *)
(* What the rest of the system relies on (SLD.tla's ClausesFor, C01's      *)
(* "clause order", C21's "rule for rule and in the same order"):           *)
(*   KBIsHistory  per predicate, the clauses in the order they were added, *)
(*                whatever was added in between for other predicates and   *)
(*                however the additions were divided into batches;         *)
(*   KeysApart    p/1 and p/2 are different predicates;                    *)
(*   Flat         the search over the knowledge base equals the search     *)
(*                over the flat program `added` (checked at the end:       *)
(*                Observed(Flatten(kb)) = Observed(added)).                *)
(***************************************************************************)
EXTENDS SLD

VARIABLES kb,        \* key -> sequence of clauses
          pending,   \* the batches still to add (a sequence of sequences of clauses)
          added      \* history: every clause added so far, in order

kvars == <<kb, pending, added>>

KeyOfClause(cl) == Key(cl.head)

KInit(batches) == kb = [k \in {} |-> <<>>] /\ pending = batches /\ added = <<>>

(* one turn of the loop of add_rules(); an exhausted batch is dropped (the call returns) *)
AddOne ==
    /\ pending # <<>>
    /\ LET bt == Head(pending) IN
       IF bt = <<>> THEN pending' = Tail(pending) /\ UNCHANGED <<kb, added>>
       ELSE LET cl == Head(bt)
                k  == KeyOfClause(cl)
            IN /\ kb' = IF k \in DOMAIN kb THEN [kb EXCEPT ![k] = Append(@, cl)]
                        ELSE [x \in DOMAIN kb \cup {k} |-> IF x = k THEN <<cl>> ELSE kb[x]]
               /\ added' = Append(added, cl)
               /\ pending' = <<Tail(bt)>> \o Tail(pending)
KNext == AddOne

KBIsHistory == /\ \A k \in DOMAIN kb : kb[k] = ClausesFor(k, added)
               /\ \A i \in DOMAIN added : KeyOfClause(added[i]) \in DOMAIN kb
KeysApart   == \A k \in DOMAIN kb : \A i \in DOMAIN kb[k] : KeyOfClause(kb[k][i]) = k
NoEmptyEntry == \A k \in DOMAIN kb : kb[k] # <<>>

(* count_rules / get_rule as the search uses them *)
CountRules(k) == IF k \in DOMAIN kb THEN Len(kb[k]) ELSE 0

(* the knowledge base as a flat program, predicate after predicate (any order of the keys will do) *)
RECURSIVE FlattenKeys(_)
FlattenKeys(ks) == IF ks = {} THEN <<>> ELSE LET k == CHOOSE x \in ks : TRUE IN kb[k] \o FlattenKeys(ks \ {k})
Flat == FlattenKeys(DOMAIN kb)

=============================================================================
