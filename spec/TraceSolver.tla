----------------------------- MODULE TraceSolver -----------------------------
(***************************************************************************)
(* Trace validation: executions RECORDED from the real engine (hooks in    *)
(* the clause loop, the built-in dispatcher and not(...), plus ask / ret   *)
(* written by the driver) are checked against the actions of Solver.tla.   *)
(*                                                                         *)
(* The trace file (ndjson, path in the environment variable TRACE) holds   *)
(* several runs; each run starts with a `program` record (knowledge base   *)
(* and query, in the JSON form of the emitted cases), followed by          *)
(*    ask                      a request for the next solution             *)
(*    resolve / headfail       clause idx of predicate key tried           *)
(*    bip                      a built-in goal (incl. `!`) executed        *)
(*    not                      the outcome of a not(...)                   *)
(*    ret                      the reply: some?, the answer, the text      *)
(*    panic / crash / hang     the engine did not return from the request  *)
(*    truncated                the recorder's event budget was used up     *)
(* The machine is deterministic: TraceNext takes the machine's next step;  *)
(* a step that corresponds to an event must find exactly that event next   *)
(* in the trace, and every event must be consumed.  All invariants of the  *)
(* solver specification are evaluated on the way, on the real execution.   *)
(***************************************************************************)
EXTENDS Solver, Json, IOUtils

CONSTANT Depth

VARIABLES l,         \* position in the trace
          runs,      \* runs accepted so far
          verdict,   \* "ok" | "done"
          nrej,      \* runs rejected so far (each is reported; validation goes on with the next run)
          expect     \* what the reference search (SLD.tla) says the requests of this run observe;
                     \* over = the run is outside the claimed fragment (computed once per run)

tvars == <<svars, l, runs, verdict, expect, nrej>>

(* the trace is read once, into a TLC register (evaluating the deserialiser at    *)
(* every reference would re-read the file)                                         *)
ASSUME TLCSet(7, ndJsonDeserialize(IOEnv.TRACE))
Rec == TLCGet(7)
AtomCodesDef == [s \in {"a", "b", "c"} |-> CASE s = "a" -> <<97>> [] s = "b" -> <<98>> [] s = "c" -> <<99>>]
FmtPiecesDef == [s \in {} |-> <<>>]

(* ---------------- JSON -> specification values ---------------- *)
Has(j, f) == f \in DOMAIN j
RECURSIVE Unpack(_), UnpackSeq(_)
Unpack(j) ==
    CASE j.k = "atom" -> Atom(j.s)
      [] j.k = "int"  -> T("int", j.s, j.n, j.e, <<>>, <<>>)
      [] j.k = "flt"  -> T("flt", j.s, j.n, j.e, <<>>, <<>>)
      [] j.k = "var"  -> Var(j.n, j.s)
      [] j.k = "anon" -> Anon
      [] j.k = "cx"   -> Cx(j.s, UnpackSeq(j.a))
      [] j.k = "fn"   -> Fn(j.s, UnpackSeq(j.a))
      [] j.k = "list" -> T("list", "", 0, 0, UnpackSeq(j.a), UnpackSeq(j.t))
      [] OTHER -> NoT
UnpackSeq(s) == IF Len(s) = 0 THEN <<>> ELSE <<Unpack(s[1])>> \o UnpackSeq(SubSeq(s, 2, Len(s)))
RECURSIVE UnpackGoal(_), UnpackGoals(_)
UnpackGoal(j) ==
    CASE j.g = "call" -> Call(Unpack(j.t))
      [] j.g = "bip"  -> Bip(j.f, UnpackSeq(j.a))
      [] j.g = "nil"  -> NoGoal
      [] OTHER -> G(j.g, NoT, "", <<>>, UnpackGoals(j.gs))
UnpackGoals(s) == IF Len(s) = 0 THEN <<>> ELSE <<UnpackGoal(s[1])>> \o UnpackGoals(SubSeq(s, 2, Len(s)))
RECURSIVE UnpackProg(_)
UnpackProg(s) == IF Len(s) = 0 THEN <<>>
                 ELSE <<Clause(Unpack(s[1].head), UnpackGoal(s[1].body))>> \o UnpackProg(SubSeq(s, 2, Len(s)))

(* ---------------- start of a run ---------------- *)
Load(r) ==
    LET pg == UnpackProg(r.prog)  q == Unpack(r.query) IN
    /\ prog' = pg /\ query' = q
    /\ nodes' = BaseNodes(pg, q, FALSE)
    /\ stack' = <<>> /\ ret' = NoneR
    /\ nextId' = Len(QueryNames(q))
    /\ stop' = FALSE /\ outbuf' = <<>> /\ hist' = <<>> /\ phase' = "idle"
    /\ acts' = {} /\ steps' = 0 /\ fireAt' = 0 /\ crSeen' = 0 /\ lastAct' = "Load"

TraceInit ==
    /\ l = 1 /\ runs = 0 /\ verdict = "ok" /\ nrej = 0 /\ expect = [over |-> TRUE, segs |-> <<>>]
    /\ prog = <<>> /\ query = Cx("none", <<>>) /\ nodes = <<>> /\ stack = <<>> /\ ret = NoneR
    /\ nextId = 0 /\ stop = FALSE /\ outbuf = <<>> /\ hist = <<>> /\ phase = "fresh"
    /\ acts = {} /\ steps = 0 /\ fireAt = 0 /\ crSeen = 0 /\ lastAct = ""

More == l <= Len(Rec)
TEv == Rec[l]

StartRun ==
    /\ verdict = "ok" /\ phase \in {"fresh", "idle", "outside"} /\ More /\ TEv.e = "program"
    /\ Load(TEv)
    /\ LET st == Stream(UnpackProg(TEv.prog), Unpack(TEv.query), Depth) IN
       expect' = IF HasE(st, "over") THEN [over |-> TRUE, segs |-> <<>>]
                 ELSE [over |-> FALSE, segs |-> Segments(st, Unpack(TEv.query), <<>>)]
    /\ l' = l + 1
    /\ runs' = IF phase = "idle" THEN runs + 1 ELSE runs
    /\ UNCHANGED <<verdict, nrej>>

TAsk ==
    /\ verdict = "ok" /\ phase = "idle" /\ More /\ TEv.e = "ask"
    /\ Ask
    /\ l' = l + 1 /\ UNCHANGED <<runs, verdict, expect, nrej>>

(* answers are compared with numbers in canonical form (2 is 1*2^1 in the recorder's projection) *)
RECURSIVE NormDeep(_), NormDeepSeq(_)
NormDeep(t) == CASE t.k \in {"int", "flt"} -> NormNum(t)
                 [] t.k \in {"cx", "fn"} -> [t EXCEPT !.a = NormDeepSeq(t.a)]
                 [] t.k = "list" -> [t EXCEPT !.a = NormDeepSeq(t.a), !.t = NormDeepSeq(t.t)]
                 [] OTHER -> t
NormDeepSeq(ts) == IF ts = <<>> THEN <<>> ELSE <<NormDeep(Head(ts))>> \o NormDeepSeq(Tail(ts))
SameAnswer(logged, b) == NormDeepSeq(UnpackSeq(logged)) = NormDeepSeq(AnswerOf(query, b))

ExpectSeg(i) == IF i <= Len(expect.segs) THEN expect.segs[i] ELSE [out |-> <<>>, ans |-> <<>>, some |-> FALSE]
PackSeg(sg) == [out |-> sg.out, some |-> sg.some, ans |-> PackSeq(sg.ans)]
RECURSIVE ConcatAll(_)
ConcatAll(ss) == IF ss = <<>> THEN "" ELSE Head(ss) \o ConcatAll(Tail(ss))

TRet ==
    /\ verdict = "ok" /\ phase = "run" /\ stack = <<>> /\ More /\ TEv.e = "ret"
    /\ Reply
    /\ TEv.some = ret.some
    /\ (ret.some => SameAnswer(TEv.ans, ret.b))
    /\ TEv.out = ConcatAll(outbuf)
    (* the machine's reply must be the reference search's (a property of Solver.tla vs   *)
    (* SLD.tla on the recorded PROGRAM: a difference is reported as SPECDIFF, a defect    *)
    (* of the specification, and checking goes on)                                        *)
    /\ IF expect.over \/ hist'[Len(hist')] = ExpectSeg(Len(hist')) THEN TRUE
       ELSE PrintT(<<"SPECDIFF", [at |-> l, machine |-> ToJson(PackSeg(hist'[Len(hist')])),
                                  reference |-> ToJson(PackSeg(ExpectSeg(Len(hist'))))]>>)
    /\ l' = l + 1 /\ UNCHANGED <<runs, verdict, expect, nrej>>

(* which machine steps correspond to an event of the implementation            *)
WillTryClause == At("cx", "C2") /\ ~(TN.noBack /\ ~Bug_ClauseLoopIgnoresCut) /\ TN.ruleIdx < TN.nRules
WillRunBip    == Entering("bip") /\ TN.more
WillNotResult == At("not", "N1")
Emits == SRunning /\ (WillTryClause \/ WillRunBip \/ WillNotResult)

KeyText(t) == t.s \o "/" \o ToString(Len(t.a))

Silent ==
    /\ verdict = "ok" /\ SRunning /\ ~Emits
    /\ SolverStep
    /\ UNCHANGED <<l, runs, verdict, expect, nrej>>

(* C10 on the implementation's own id counter: renaming the clause for this head unification     *)
(* must have taken at least one fresh id per variable name of the clause (`base` / `after` are  *)
(* the engine's counter before and after the renaming).  A breach is reported (IDS) and the run  *)
(* goes on: it need not change any answer.                                                        *)
IdsOk == IF WillTryClause /\ "base" \in DOMAIN TEv /\ "after" \in DOMAIN TEv
         THEN TEv.after - TEv.base >= Len(ClauseNames(CxClauses[TN.ruleIdx + 1]))
         ELSE TRUE

EventStep ==
    /\ verdict = "ok" /\ Emits /\ More
    /\ SolverStep
    /\ phase' # "outside"
    /\ IF IdsOk THEN TRUE
       ELSE PrintT(<<"IDS", [at |-> l, runs_ok |-> runs, event |-> ToJson(TEv),
                             names |-> Len(ClauseNames(CxClauses[TN.ruleIdx + 1]))]>>)
    /\ IF WillTryClause
       THEN /\ TEv.e \in {"resolve", "headfail"}
            /\ TEv.key = KeyText(TN.goal.t)
            /\ TEv.idx = TN.ruleIdx
            /\ (TEv.e = "resolve") = (lastAct' \in {"CxHeadOkFact", "CxHeadOkRule"})
            /\ (TEv.e = "headfail") = (lastAct' = "CxHeadFail")
       ELSE IF WillRunBip
       THEN /\ TEv.e = "bip" /\ TEv.f = TN.goal.f
       ELSE /\ TEv.e = "not" /\ TEv.ok = (lastAct' = "NotSucceeds")
    /\ l' = l + 1 /\ UNCHANGED <<runs, verdict, expect, nrej>>

(* A head unification that FAILS is not observable: an engine that skips a clause which cannot   *)
(* match (first-argument indexing, say) logs no `headfail` for it.  The machine's failing try is   *)
(* then a silent step.  (A logged `headfail` must still be the machine's: EventStep.)               *)
HeadFailLogged == More /\ TEv.e = "headfail" /\ TEv.key = KeyText(TN.goal.t) /\ TEv.idx = TN.ruleIdx
UnloggedHeadFail ==
    /\ verdict = "ok" /\ Emits /\ WillTryClause /\ ~HeadFailLogged
    /\ SolverStep
    /\ lastAct' = "CxHeadFail"
    /\ UNCHANGED <<l, runs, verdict, expect, nrej>>

(* the machine's next step leaves the claimed fragment (an occurs check would be    *)
(* needed, a built-in is called outside its documented domain): nothing is said      *)
(* about what the engine does there, no event is consumed                            *)
OutsideStep ==
    /\ verdict = "ok" /\ Emits
    /\ SolverStep
    /\ phase' = "outside"
    /\ UNCHANGED <<l, runs, verdict, expect, nrej>>

(* ... and the remaining events of such a run are skipped, nothing is concluded      *)
SkipRun ==
    /\ verdict = "ok" /\ phase = "outside" /\ More /\ TEv.e # "program"
    /\ l' = l + 1
    /\ UNCHANGED <<svars, runs, verdict, expect, nrej>>

LeaveRun == /\ phase' = "outside"
            /\ UNCHANGED <<prog, query, nodes, stack, ret, nextId, stop, outbuf, hist, acts, steps, fireAt, crSeen, lastAct>>

(* the engine panicked, crashed or hung: that is a behaviour of the specification    *)
(* only for a program outside the claimed fragment (the reference search itself      *)
(* exceeds the depth budget or leaves the documented domain)                         *)
CanDie == phase \in {"idle", "run"} /\ More /\ TEv.e \in {"panic", "crash", "hang"} /\ expect.over
Died ==
    /\ verdict = "ok" /\ CanDie
    /\ LeaveRun
    /\ l' = l + 1 /\ UNCHANGED <<runs, verdict, expect, nrej>>

CanSilent == SRunning /\ ~Emits
(* the recorder stopped recording this run (event budget): the prefix was checked    *)
CanTrunc == phase \in {"idle", "run"} /\ More /\ TEv.e = "truncated" /\ ~CanSilent
Truncated ==
    /\ verdict = "ok" /\ CanTrunc
    /\ LeaveRun
    /\ l' = l + 1 /\ UNCHANGED <<runs, verdict, expect, nrej>>

(* nothing above is possible although the trace or the machine has not ended:    *)
(* the execution is not a behaviour of the specification.  The run is reported   *)
(* and abandoned; validation goes on with the next run.                          *)
CanStart == phase \in {"fresh", "idle", "outside"} /\ More /\ TEv.e = "program"
CanAsk   == phase = "idle" /\ More /\ TEv.e = "ask"
CanRet   == /\ phase = "run" /\ stack = <<>> /\ More /\ TEv.e = "ret" /\ TEv.some = ret.some
            /\ (ret.some => SameAnswer(TEv.ans, ret.b))
            /\ TEv.out = ConcatAll(outbuf)
CanSkip  == phase = "outside" /\ More /\ TEv.e # "program"
AtEnd    == phase \in {"idle", "outside"} /\ ~More
Stuck ==
    /\ verdict = "ok"
    /\ ~CanStart /\ ~CanAsk /\ ~CanRet /\ ~CanSilent /\ ~CanSkip /\ ~AtEnd /\ ~CanDie /\ ~CanTrunc
    /\ ~ENABLED EventStep /\ ~ENABLED OutsideStep /\ ~ENABLED UnloggedHeadFail
    /\ PrintT(<<"REJECTED", [at |-> l, runs_ok |-> runs, exhausted |-> (\E i \in DOMAIN hist : ~hist[i].some),
                             retdiff |-> IF More /\ TEv.e = "ret" /\ phase = "run" /\ stack = <<>>
                                         THEN (IF TEv.some # ret.some THEN "some"
                                               ELSE IF ret.some /\ ~SameAnswer(TEv.ans, ret.b) THEN "ans" ELSE "out")
                                         ELSE "",
                             event |-> IF More THEN ToJson(TEv) ELSE "end of trace",
                             model |-> IF stack # <<>> THEN [pc |-> STop.pc, kind |-> TN.kind, goal |-> ToJson(TN.goal)]
                                       ELSE [pc |-> "-", kind |-> phase, goal |-> ""]]>>)
    /\ nrej' = nrej + 1
    /\ IF More
       THEN LeaveRun /\ UNCHANGED <<l, runs, verdict, expect>>          \* skip the rest of this run
       ELSE verdict' = "done" /\ UNCHANGED <<svars, l, runs, expect>>    \* the trace ended in the middle of a run

Finished ==
    /\ verdict = "ok" /\ phase \in {"idle", "outside"} /\ ~More
    /\ PrintT(<<"VALIDATED", IF phase = "idle" THEN runs + 1 ELSE runs, nrej, l - 1>>)
    /\ verdict' = "done"
    /\ UNCHANGED <<svars, l, runs, expect, nrej>>

TraceNext == StartRun \/ TAsk \/ TRet \/ Silent \/ EventStep \/ UnloggedHeadFail \/ OutsideStep \/ SkipRun \/ Died \/ Truncated \/ Stuck \/ Finished
TraceSpec == TraceInit /\ [][TraceNext]_tvars

(* ---------------- what is checked on the recorded execution ---------------- *)
(* These are properties of the MACHINE on the program of the recorded run (they    *)
(* cannot be broken by the implementation, whose divergence shows as a rejected    *)
(* run): a violation means that Solver.tla itself is wrong for that program.        *)
TCutCommits   == [][lastAct' = "Load" \/ CutCommitsStep]_tvars
TNoRetry      == [][lastAct' = "Load" \/ NoRetryStep]_tvars
TCutIsLocal   == [][lastAct' = "Load" \/ CutLocalStep]_tvars
(* FreshIsFresh / NodesAcyclic of Solver.tla, evaluated on the nodes created last: nodes are     *)
(* only ever appended (at most a handful per step), their goal and bindings never change         *)
(* afterwards, and the id counter never decreases, so this checks every node                     *)
Newest(i) == i > Len(nodes) - 8
TFresh   == \A i \in DOMAIN nodes : Newest(i) =>
              \A id \in IdsOfSeq(GoalTerms(nodes[i].goal)) \cup IdsOfBind(nodes[i].ss) : id <= nextId
TAcyclic == \A i \in DOMAIN nodes : Newest(i) => Acyclic(nodes[i].ss)
(* the machine's replies are those of the reference search: each reply, when it    *)
(* is given, equals the reference's segment at that position (earlier replies      *)
(* were checked when they were given)                                              *)
TraceRefines ==
    (phase = "idle" /\ lastAct \in {"Answer", "NoMore"} /\ hist # <<>>) =>
        \/ expect.over
        \/ LET i == Len(hist) IN
           hist[i] = (IF i <= Len(expect.segs) THEN expect.segs[i] ELSE [out |-> <<>>, ans |-> <<>>, some |-> FALSE])

=============================================================================
