----------------------------- MODULE TraceSolver -----------------------------
(***************************************************************************)
(* Trace validation: executions RECORDED from the real engine (hooks in    *)
(* the clause loop, the built-in dispatcher and not(...), plus ask / ret   *)
(* written by the driver) are checked against the actions of Solver.tla.   *)
(*                                                                         *)
(* The trace file (ndjson, path in the environment variable TRACE) holds   *)
(* several runs; each run starts with a `program` record (knowledge base   *)
(* and query, in the JSON form of the emitted cases), followed by          *)
(*    ask                      a request for the next solution             *)
(*    resolve / headfail       clause idx of predicate key tried           *)
(*    bip                      a built-in goal (incl. `!`) executed        *)
(*    not                      the outcome of a not(...)                   *)
(*    ret                      the reply: some?, the answer, the text      *)
(* The machine is deterministic: TraceNext takes the machine's next step;  *)
(* a step that corresponds to an event must find exactly that event next   *)
(* in the trace, and every event must be consumed.  All invariants of the  *)
(* solver specification are evaluated on the way, on the real execution.   *)
(***************************************************************************)
EXTENDS Solver, Json, IOUtils

CONSTANT Depth

VARIABLES l,         \* position in the trace
          runs,      \* runs accepted so far
          verdict    \* "ok" | "rejected"

tvars == <<svars, l, runs, verdict>>

(* the trace is read once, into a TLC register (evaluating the deserialiser at    *)
(* every reference would re-read the file)                                         *)
ASSUME TLCSet(7, ndJsonDeserialize(IOEnv.TRACE))
Rec == TLCGet(7)
AtomCodesDef == [s \in {"a", "b", "c"} |-> CASE s = "a" -> <<97>> [] s = "b" -> <<98>> [] s = "c" -> <<99>>]
FmtPiecesDef == [s \in {} |-> <<>>]

(* ---------------- JSON -> specification values ---------------- *)
Has(j, f) == f \in DOMAIN j
RECURSIVE Unpack(_), UnpackSeq(_)
Unpack(j) ==
    CASE j.k = "atom" -> Atom(j.s)
      [] j.k = "int"  -> T("int", "", j.n, j.e, <<>>, <<>>)
      [] j.k = "flt"  -> T("flt", j.s, j.n, j.e, <<>>, <<>>)
      [] j.k = "var"  -> Var(j.n, j.s)
      [] j.k = "anon" -> Anon
      [] j.k = "cx"   -> Cx(j.s, UnpackSeq(j.a))
      [] j.k = "fn"   -> Fn(j.s, UnpackSeq(j.a))
      [] j.k = "list" -> T("list", "", 0, 0, UnpackSeq(j.a), UnpackSeq(j.t))
      [] OTHER -> NoT
UnpackSeq(s) == IF Len(s) = 0 THEN <<>> ELSE <<Unpack(s[1])>> \o UnpackSeq(SubSeq(s, 2, Len(s)))
RECURSIVE UnpackGoal(_), UnpackGoals(_)
UnpackGoal(j) ==
    CASE j.g = "call" -> Call(Unpack(j.t))
      [] j.g = "bip"  -> Bip(j.f, UnpackSeq(j.a))
      [] j.g = "nil"  -> NoGoal
      [] OTHER -> G(j.g, NoT, "", <<>>, UnpackGoals(j.gs))
UnpackGoals(s) == IF Len(s) = 0 THEN <<>> ELSE <<UnpackGoal(s[1])>> \o UnpackGoals(SubSeq(s, 2, Len(s)))
RECURSIVE UnpackProg(_)
UnpackProg(s) == IF Len(s) = 0 THEN <<>>
                 ELSE <<Clause(Unpack(s[1].head), UnpackGoal(s[1].body))>> \o UnpackProg(SubSeq(s, 2, Len(s)))

(* ---------------- start of a run ---------------- *)
Load(r) ==
    LET pg == UnpackProg(r.prog)  q == Unpack(r.query) IN
    /\ prog' = pg /\ query' = q
    /\ nodes' = BaseNodes(pg, q, FALSE)
    /\ stack' = <<>> /\ ret' = NoneR
    /\ nextId' = Len(QueryNames(q))
    /\ stop' = FALSE /\ outbuf' = <<>> /\ hist' = <<>> /\ phase' = "idle"
    /\ acts' = {} /\ steps' = 0 /\ fireAt' = 0 /\ crSeen' = 0 /\ lastAct' = "Load"

TraceInit ==
    /\ l = 1 /\ runs = 0 /\ verdict = "ok"
    /\ prog = <<>> /\ query = Cx("none", <<>>) /\ nodes = <<>> /\ stack = <<>> /\ ret = NoneR
    /\ nextId = 0 /\ stop = FALSE /\ outbuf = <<>> /\ hist = <<>> /\ phase = "fresh"
    /\ acts = {} /\ steps = 0 /\ fireAt = 0 /\ crSeen = 0 /\ lastAct = ""

More == l <= Len(Rec)
TEv == Rec[l]

StartRun ==
    /\ verdict = "ok" /\ phase \in {"fresh", "idle", "outside"} /\ More /\ TEv.e = "program"
    /\ Load(TEv)
    /\ l' = l + 1
    /\ runs' = IF phase = "idle" THEN runs + 1 ELSE runs
    /\ UNCHANGED verdict

TAsk ==
    /\ verdict = "ok" /\ phase = "idle" /\ More /\ TEv.e = "ask"
    /\ Ask
    /\ l' = l + 1 /\ UNCHANGED <<runs, verdict>>

RECURSIVE ConcatAll(_)
ConcatAll(ss) == IF ss = <<>> THEN "" ELSE Head(ss) \o ConcatAll(Tail(ss))

TRet ==
    /\ verdict = "ok" /\ phase = "run" /\ stack = <<>> /\ More /\ TEv.e = "ret"
    /\ Reply
    /\ TEv.some = ret.some
    /\ (ret.some => UnpackSeq(TEv.ans) = AnswerOf(query, ret.b))
    /\ TEv.out = ConcatAll(outbuf)
    /\ l' = l + 1 /\ UNCHANGED <<runs, verdict>>

(* which machine steps correspond to an event of the implementation            *)
WillTryClause == At("cx", "C2") /\ ~(TN.noBack /\ ~Bug_ClauseLoopIgnoresCut) /\ TN.ruleIdx < TN.nRules
WillRunBip    == Entering("bip") /\ TN.more
WillNotResult == At("not", "N1")
Emits == SRunning /\ (WillTryClause \/ WillRunBip \/ WillNotResult)

KeyText(t) == t.s \o "/" \o ToString(Len(t.a))

Silent ==
    /\ verdict = "ok" /\ SRunning /\ ~Emits
    /\ SolverStep
    /\ UNCHANGED <<l, runs, verdict>>

EventStep ==
    /\ verdict = "ok" /\ Emits /\ More
    /\ SolverStep
    /\ IF WillTryClause
       THEN /\ TEv.e \in {"resolve", "headfail"}
            /\ TEv.key = KeyText(TN.goal.t)
            /\ TEv.idx = TN.ruleIdx
            /\ (TEv.e = "resolve") = (lastAct' \in {"CxHeadOkFact", "CxHeadOkRule"})
            /\ (TEv.e = "headfail") = (lastAct' = "CxHeadFail")
       ELSE IF WillRunBip
       THEN /\ TEv.e = "bip" /\ TEv.f = TN.goal.f
       ELSE /\ TEv.e = "not" /\ TEv.ok = (lastAct' = "NotSucceeds")
    /\ l' = l + 1 /\ UNCHANGED <<runs, verdict>>

(* the run left the claimed fragment (occurs check needed, a built-in outside its  *)
(* documented domain): its remaining events are skipped, nothing is concluded       *)
SkipRun ==
    /\ verdict = "ok" /\ phase = "outside" /\ More /\ TEv.e # "program"
    /\ l' = l + 1
    /\ UNCHANGED <<svars, runs, verdict>>

(* nothing above is possible although the trace or the machine has not ended:    *)
(* the execution is not a behaviour of the specification                         *)
CanStart == phase \in {"fresh", "idle", "outside"} /\ More /\ TEv.e = "program"
CanAsk   == phase = "idle" /\ More /\ TEv.e = "ask"
CanRet   == /\ phase = "run" /\ stack = <<>> /\ More /\ TEv.e = "ret" /\ TEv.some = ret.some
            /\ (ret.some => UnpackSeq(TEv.ans) = AnswerOf(query, ret.b))
            /\ TEv.out = ConcatAll(outbuf)
CanSilent == SRunning /\ ~Emits
CanSkip  == phase = "outside" /\ More /\ TEv.e # "program"
AtEnd    == phase \in {"idle", "outside"} /\ ~More
Stuck ==
    /\ verdict = "ok"
    /\ ~CanStart /\ ~CanAsk /\ ~CanRet /\ ~CanSilent /\ ~CanSkip /\ ~AtEnd
    /\ ~ENABLED EventStep
    /\ PrintT(<<"REJECTED", [at |-> l, runs_ok |-> runs, exhausted |-> (\E i \in DOMAIN hist : ~hist[i].some),
                             retdiff |-> IF More /\ TEv.e = "ret" /\ phase = "run" /\ stack = <<>>
                                         THEN (IF TEv.some # ret.some THEN "some"
                                               ELSE IF ret.some /\ UnpackSeq(TEv.ans) # AnswerOf(query, ret.b) THEN "ans" ELSE "out")
                                         ELSE "",
                             event |-> IF More THEN ToJson(TEv) ELSE "end of trace",
                             model |-> IF stack # <<>> THEN [pc |-> STop.pc, kind |-> TN.kind, goal |-> ToJson(TN.goal)]
                                       ELSE [pc |-> "-", kind |-> phase, goal |-> ""]]>>)
    /\ verdict' = "rejected"
    /\ UNCHANGED <<svars, l, runs>>

Finished ==
    /\ verdict = "ok" /\ phase \in {"idle", "outside"} /\ ~More
    /\ PrintT(<<"ACCEPTED", runs + 1, l - 1>>)
    /\ verdict' = "accepted"
    /\ UNCHANGED <<svars, l, runs>>

TraceNext == StartRun \/ TAsk \/ TRet \/ Silent \/ EventStep \/ SkipRun \/ Stuck \/ Finished
TraceSpec == TraceInit /\ [][TraceNext]_tvars

(* ---------------- what is checked on the recorded execution ---------------- *)
(* the cut properties of Solver.tla, on every step of a run                        *)
TCutCommits   == [][lastAct' = "Load" \/ CutCommitsStep]_tvars
TNoRetry      == [][lastAct' = "Load" \/ NoRetryStep]_tvars
TCutIsLocal   == [][lastAct' = "Load" \/ CutLocalStep]_tvars
NotRejected == verdict # "rejected"
(* the answers the real engine returned are those of the reference search        *)
TraceRefines ==
    (phase = "idle" /\ lastAct \in {"Answer", "NoMore"}) =>
        LET st == Stream(prog, query, Depth) IN
        HasE(st, "over") \/
        LET ex == Segments(st, query, <<>>) IN
        \A i \in DOMAIN hist :
            hist[i] = (IF i <= Len(ex) THEN ex[i] ELSE [out |-> <<>>, ans |-> <<>>, some |-> FALSE])

=============================================================================
