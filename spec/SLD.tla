-------------------------------- MODULE SLD --------------------------------
(***************************************************************************)
(* The reference semantics of a Suiron query: the EVENT STREAM of depth-   *)
(* first, left-to-right, clause-order resolution (properties C01-C05, C11).*)
(*                                                                         *)
(* Run(goal, b, n, d) is the sequence of events produced by solving goal   *)
(* from bindings b with n variable ids in use and call-depth budget d:     *)
(*    out(text)    a print / print_list / nl executed                      *)
(*    ans(b', n')  a solution                                              *)
(*    cut          a `!` of the CURRENT clause body executed               *)
(*    over         budget exhausted or a goal outside every claim          *)
(*                                                                         *)
(* Cut, as documented for Suiron: `!` discards the alternatives of the     *)
(* goals to its left and the later clauses of the call (as in Prolog),     *)
(* and the call yields no answer beyond the one being derived when the cut *)
(* ran.  time(G): G's first answer, then the elapsed time is written.      *)
(* not(G): one answer with the incoming bindings iff G has none; the       *)
(* search for G's first answer really runs (its output is kept).           *)
(* This module knows nothing about solution nodes; Solver.tla must refine  *)
(* it.                                                                     *)
(***************************************************************************)
EXTENDS Builtins

(* A program is a sequence of clauses [head, body]; it is passed explicitly   *)
(* (TLC enumerates many programs in one run).                                *)

(* ---------------- goals ---------------- *)
G(g, t, f, a, gs) == [g |-> g, t |-> t, f |-> f, a |-> a, gs |-> gs]
NoGoal        == G("nil", NoT, "", <<>>, <<>>)
Call(t)       == G("call", t, "", <<>>, <<>>)
Bip(f, args)  == G("bip", NoT, f, args, <<>>)
CutG          == Bip("!", <<>>)
FailG         == Bip("fail", <<>>)
NlG           == Bip("nl", <<>>)
AndG(gs)      == G("and", NoT, "", <<>>, gs)
OrG(gs)       == G("or", NoT, "", <<>>, gs)
NotG(g)       == G("not", NoT, "", <<>>, <<g>>)
TimeG(g)      == G("time", NoT, "", <<>>, <<g>>)
TimeText      == "<time>"       \* stands for the "N seconds M microseconds " that time(...) writes
UnifyG(x, y)  == Bip("unify", <<x, y>>)
Clause(h, body) == [head |-> h, body |-> body]
Fact(h)       == Clause(h, NoGoal)

(* terms occurring in a goal, left to right (for renaming)                   *)
RECURSIVE GoalTerms(_), GoalsTerms(_)
GoalTerms(g) == CASE g.g = "call" -> <<g.t>>
                  [] g.g = "bip"  -> g.a
                  [] g.g \in {"and", "or", "not", "time"} -> GoalsTerms(g.gs)
                  [] OTHER -> <<>>
GoalsTerms(gs) == IF gs = <<>> THEN <<>> ELSE GoalTerms(Head(gs)) \o GoalsTerms(Tail(gs))

RECURSIVE ReIdGoal(_, _, _), ReIdGoals(_, _, _)
ReIdGoal(g, names, base) ==
    CASE g.g = "call" -> [g EXCEPT !.t = ReIdBy(g.t, names, base)]
      [] g.g = "bip"  -> [g EXCEPT !.a = ReIdSeq(g.a, names, base)]
      [] g.g \in {"and", "or", "not", "time"} -> [g EXCEPT !.gs = ReIdGoals(g.gs, names, base)]
      [] OTHER -> g
ReIdGoals(gs, names, base) ==
    IF gs = <<>> THEN <<>> ELSE <<ReIdGoal(Head(gs), names, base)>> \o ReIdGoals(Tail(gs), names, base)

(* renaming apart of a clause: ids base+1 .. base+k by first occurrence of   *)
(* each NAME (head first, then the body left to right)                       *)
ClauseNames(cl) == NameSeq(<<cl.head>> \o GoalTerms(cl.body), <<>>)
RenameClause(cl, base) ==
    LET names == ClauseNames(cl) IN
    [head |-> ReIdBy(cl.head, names, base), body |-> ReIdGoal(cl.body, names, base), k |-> Len(names)]

Key(t) == <<t.s, Len(t.a)>>
RECURSIVE ClausesFor(_, _)
ClausesFor(key, prog) ==
    IF prog = <<>> THEN <<>>
    ELSE IF Key(Head(prog).head) = key THEN <<Head(prog)>> \o ClausesFor(key, Tail(prog))
    ELSE ClausesFor(key, Tail(prog))

(* ---------------- events ---------------- *)
Ev(e, s, b, n) == [e |-> e, s |-> s, b |-> b, n |-> n]
OutE(s)    == Ev("out", s, <<>>, 0)
AnsE(b, n) == Ev("ans", "", b, n)
CutE       == Ev("cut", "", <<>>, 0)
OverE      == Ev("over", "", <<>>, 0)

HasE(s, e) == \E i \in DOMAIN s : s[i].e = e
HasCut(s)  == HasE(s, "cut")

(* events up to and including the first answer that follows a cut; cut marks  *)
(* removed (a cut is local to the call whose clause contains it)               *)
RECURSIVE CutScope(_, _)
CutScope(s, seen) ==
    IF s = <<>> THEN <<>>
    ELSE LET it == Head(s) IN
         IF it.e = "cut" THEN CutScope(Tail(s), TRUE)
         ELSE IF it.e = "ans" /\ seen THEN <<it>>
         ELSE <<it>> \o CutScope(Tail(s), seen)

(* A compound goal (conjunction, disjunction) in which a cut has executed is an   *)
(* ANCESTOR of that cut: backtracking into it is disabled, so it gives its parent  *)
(* no solution beyond the first one that follows the cut.  The cut marks are kept  *)
(* (the cut goes on to the enclosing goals, up to the call).  This is what makes   *)
(* `(!, q($X)), r($X)` differ from `!, q($X), r($X)`: in the first, q cannot be    *)
(* re-tried when r fails, because q lives inside the frozen nested conjunction.    *)
RECURSIVE Frozen(_, _)
Frozen(s, seen) ==
    IF s = <<>> THEN <<>>
    ELSE LET it == Head(s) IN
         IF it.e = "cut" THEN <<it>> \o Frozen(Tail(s), TRUE)
         ELSE IF it.e = "ans" /\ seen THEN <<it>>
         ELSE <<it>> \o Frozen(Tail(s), seen)

(* the events of s before its first answer, and whether there is one          *)
RECURSIVE BeforeAns(_)
BeforeAns(s) == IF s = <<>> \/ Head(s).e = "ans" THEN <<>> ELSE <<Head(s)>> \o BeforeAns(Tail(s))

(* ---------------- the semantics ---------------- *)
RECURSIVE Run(_, _, _, _, _), RunAnd(_, _, _, _, _), FeedAnd(_, _, _, _), RunOr(_, _, _, _, _),
          RunCall(_, _, _, _, _), TryClauses(_, _, _, _, _, _)

Run(P, g, b, n, d) ==
    CASE g.g = "bip" ->
            IF g.f = "!" THEN <<CutE, AnsE(b, n)>>
            ELSE LET r == BipSem(g.f, g.a, b) IN
                 IF r.st = "out" THEN <<OverE>>
                 ELSE (IF r.out # "" THEN <<OutE(r.out)>> ELSE <<>>)
                      \o (IF r.st = "ok" THEN <<AnsE(r.b, n)>> ELSE <<>>)
      [] g.g = "and"  -> Frozen(RunAnd(P, g.gs, b, n, d), FALSE)
      [] g.g = "or"   -> Frozen(RunOr(P, g.gs, b, n, d), FALSE)
      [] g.g = "not"  -> LET s == Run(P, g.gs[1], b, n, d)
                             pre == BeforeAns(s) IN
                         IF HasE(pre, "over") \/ HasE(pre, "cut") THEN <<OverE>>   \* cut inside not: no claim
                         ELSE IF HasE(s, "ans") THEN pre ELSE pre \o <<AnsE(b, n)>>
      (* time(G): G's first answer only (at most once), and the elapsed time is written  *)
      (* when the search for it ends -- with or without an answer                         *)
      [] g.g = "time" -> LET s == Run(P, g.gs[1], b, n, d)
                             pre == BeforeAns(s) IN
                         IF HasE(pre, "over") \/ HasE(pre, "cut") THEN <<OverE>>  \* cut inside time: no claim
                         ELSE IF HasE(s, "ans") THEN pre \o <<OutE(TimeText), s[Len(pre) + 1]>>
                         ELSE pre \o <<OutE(TimeText)>>
      [] g.g = "call" -> RunCall(P, g.t, b, n, d)
      [] OTHER -> <<OverE>>

RunAnd(P, gs, b, n, d) ==
    IF gs = <<>> THEN <<AnsE(b, n)>>
    ELSE FeedAnd(P, Run(P, Head(gs), b, n, d), Tail(gs), d)

(* for each answer of the first goal, in order, solve the rest; a cut in the   *)
(* rest discards the remaining answers of the first goal                        *)
FeedAnd(P, items, rest, d) ==
    IF items = <<>> THEN <<>>
    ELSE LET it == Head(items) IN
         IF it.e = "over" THEN <<it>>
         ELSE IF it.e = "ans"
         THEN LET sub == RunAnd(P, rest, it.b, it.n, d) IN
              IF HasCut(sub) \/ HasE(sub, "over") THEN sub
              ELSE sub \o FeedAnd(P, Tail(items), rest, d)
         ELSE <<it>> \o FeedAnd(P, Tail(items), rest, d)

(* alternatives in order; a cut inside one discards the later ones              *)
RunOr(P, gs, b, n, d) ==
    IF gs = <<>> THEN <<>>
    ELSE LET s == Run(P, Head(gs), b, n, d) IN
         IF HasCut(s) \/ HasE(s, "over") THEN s ELSE s \o RunOr(P, Tail(gs), b, n, d)

RunCall(P, t, b, n, d) ==
    IF d = 0 THEN <<OverE>>
    ELSE TryClauses(P, ClausesFor(Key(t), P), t, b, n, d)

TryClauses(P, cls, t, b, n, d) ==
    IF cls = <<>> THEN <<>>
    ELSE LET rc == RenameClause(Head(cls), n)
             u  == UnifyBig(rc.head, t, b) IN
         IF u.status \notin {"ok", "fail"} THEN <<OverE>>
         ELSE IF u.status = "fail" THEN TryClauses(P, Tail(cls), t, b, n, d)
         ELSE LET s == IF rc.body = NoGoal THEN <<AnsE(u.bind, n + rc.k)>>
                       ELSE Run(P, rc.body, u.bind, n + rc.k, d - 1) IN
              IF HasE(s, "over") THEN CutScope(s, FALSE)      \* poison travels up
              ELSE IF HasCut(s) THEN CutScope(s, FALSE)       \* commit: no later clause
              ELSE s \o TryClauses(P, Tail(cls), t, b, n, d)

(* ---------------- a query and what its caller observes ---------------- *)
(* make_query resets the id counter and renames the query's variables 1..k    *)
QueryNames(q) == NameSeq(<<q>>, <<>>)
QueryTerm(q)  == ReIdBy(q, QueryNames(q), 0)
Stream(P, q, depth) ==
    LET qt == QueryTerm(q) IN RunCall(P, qt, <<>>, Len(QueryNames(q)), depth)

(* the value of the query's arguments under a solution, up to renaming         *)
AnswerOf(q, b) == Canon(ResolveSeq(QueryTerm(q).a, b))

(* what successive requests for a solution observe: a sequence of              *)
(* [out |-> <<texts>>, ans |-> <<>> (none) or <<args>>]; the last one is "none" *)
RECURSIVE Segments(_, _, _)
Segments(s, q, acc) ==
    IF s = <<>> THEN <<[out |-> acc, ans |-> <<>>, some |-> FALSE]>>
    ELSE LET it == Head(s) IN
         IF it.e = "out" THEN Segments(Tail(s), q, Append(acc, it.s))
         ELSE IF it.e = "ans"
         THEN <<[out |-> acc, ans |-> AnswerOf(q, it.b), some |-> TRUE]>> \o Segments(Tail(s), q, <<>>)
         ELSE Segments(Tail(s), q, acc)
Observed(P, q, depth) == Segments(Stream(P, q, depth), q, <<>>)
InClaim(P, q, depth)  == ~HasE(Stream(P, q, depth), "over")

=============================================================================
