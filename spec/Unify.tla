------------------------------- MODULE Unify -------------------------------
(***************************************************************************)
(* The unifier as a state machine, one action per branch of                *)
(* Unifiable::unify, plus sessions (several unifications in a row, each    *)
(* starting from the bindings the previous one returned).                  *)
(*                                                                         *)
(* This is the INTENDED unifier (properties C06-C09, C13): the anonymous   *)
(* variable never binds, a variable is never bound when the other side's   *)
(* chain ends at that same variable, function terms are evaluated on       *)
(* either side, the empty list only matches the empty list.                *)
(*                                                                         *)
(* state u:                                                                *)
(*   todo    remaining <<a, b>> pairs of the session                        *)
(*   work    stack of term pairs of the current unification                 *)
(*   bind    current bindings (committed + tentative)                       *)
(*   commit  bindings returned by the last successful unification           *)
(*   done    number of completed unifications                               *)
(*   status  "run" | "ok" | "fail" | "occurs" | "out"                       *)
(*   path    names of the actions taken (branch coverage of the replay)     *)
(***************************************************************************)
EXTENDS Funcs

InitU(pairs, prior) ==
    [todo |-> Tail(pairs), work |-> <<Head(pairs)>>, bind |-> prior,
     commit |-> prior, done |-> 0, status |-> "run", path |-> <<>>,
     pairs |-> pairs, prior |-> prior]

Top(st)   == st.work[1]
Rest(st)  == Tail(st.work)
Step(st, name, work, bind) ==
    [st EXCEPT !.work = work, !.bind = bind, !.path = Append(@, name)]
Stop(st, name, status) ==
    [st EXCEPT !.status = status, !.path = Append(@, name),
               !.bind = IF status = "ok" THEN @ ELSE st.commit]

(* a list without elements but with a tail is just that tail                 *)
NormL(l) == IF l.k = "list" /\ l.a = <<>> /\ l.t # <<>> THEN l.t[1] ELSE l
RestL(l) == NormL([l EXCEPT !.a = Tail(l.a)])

UnboundVar(t, b) == t.k = "var" /\ ~Bound(t.n, b)
BoundVar(t, b)   == t.k = "var" /\ Bound(t.n, b)

(* ---- guards and effects, in the priority order of StepFn ---------------- *)
Running(st)   == st.status = "run"
HasWork(st)   == Running(st) /\ st.work # <<>>

G_Finish(st)  == Running(st) /\ st.work = <<>>
D_Finish(st)  ==
    IF st.todo = <<>>
    THEN [st EXCEPT !.status = "ok", !.commit = st.bind, !.done = @ + 1,
                    !.path = Append(@, "Finish")]
    ELSE [st EXCEPT !.work = <<Head(st.todo)>>, !.todo = Tail(@),
                    !.commit = st.bind, !.done = @ + 1,
                    !.path = Append(@, "NextGoal")]

G_Same(st)    == HasWork(st) /\ Top(st)[1] = Top(st)[2]
D_Same(st)    == Step(st, "Same", Rest(st), st.bind)

G_Anon(st)    == HasWork(st) /\ (Top(st)[1].k = "anon" \/ Top(st)[2].k = "anon")
D_Anon(st)    == Step(st, "AnonEither", Rest(st), st.bind)

G_FnL(st)     == HasWork(st) /\ Top(st)[1].k = "fn"
D_FnL(st)     == LET r == EvalFn(Top(st)[1], st.bind) IN
                 IF r.st = "out" THEN Stop(st, "EvalFunction", "out")
                 ELSE Step(st, "EvalFunction", <<<<r.v, Top(st)[2]>>>> \o Rest(st), st.bind)
G_FnR(st)     == HasWork(st) /\ Top(st)[2].k = "fn"
D_FnR(st)     == LET r == EvalFn(Top(st)[2], st.bind) IN
                 IF r.st = "out" THEN Stop(st, "EvalFunction", "out")
                 ELSE Step(st, "EvalFunction", <<<<Top(st)[1], r.v>>>> \o Rest(st), st.bind)

G_DerefL(st)  == HasWork(st) /\ BoundVar(Top(st)[1], st.bind)
D_DerefL(st)  == Step(st, "DerefLeft",
                      <<<<st.bind[Top(st)[1].n], Top(st)[2]>>>> \o Rest(st), st.bind)
G_DerefR(st)  == HasWork(st) /\ BoundVar(Top(st)[2], st.bind)
D_DerefR(st)  == Step(st, "DerefRight",
                      <<<<Top(st)[1], st.bind[Top(st)[2].n]>>>> \o Rest(st), st.bind)

(* both sides are now fully walked; Same already excluded x = y               *)
G_BindL(st)   == HasWork(st) /\ UnboundVar(Top(st)[1], st.bind)
D_BindL(st)   == LET x == Top(st)[1]  y == Top(st)[2] IN
                 IF x.n \in Reach(y, st.bind)
                 THEN Stop(st, "BindVar", "occurs")
                 ELSE Step(st, "BindVar", Rest(st), BindTo(st.bind, x.n, y))
G_BindR(st)   == HasWork(st) /\ UnboundVar(Top(st)[2], st.bind)
D_BindR(st)   == LET x == Top(st)[2]  y == Top(st)[1] IN
                 IF x.n \in Reach(y, st.bind)
                 THEN Stop(st, "BindVar", "occurs")
                 ELSE Step(st, "BindVar", Rest(st), BindTo(st.bind, x.n, y))

G_Const(st)   == HasWork(st) /\ IsConst(Top(st)[1]) /\ IsConst(Top(st)[2])
D_Const(st)   == IF NormNum(Top(st)[1]) = NormNum(Top(st)[2])
                 THEN Step(st, "ConstConst", Rest(st), st.bind)
                 ELSE Stop(st, "ConstConst", "fail")

G_Cx(st)      == HasWork(st) /\ Top(st)[1].k = "cx" /\ Top(st)[2].k = "cx"
RECURSIVE Zip(_, _)
Zip(s1, s2)   == IF s1 = <<>> THEN <<>> ELSE <<<<Head(s1), Head(s2)>>>> \o Zip(Tail(s1), Tail(s2))
D_Cx(st)      == LET x == Top(st)[1]  y == Top(st)[2] IN
                 IF x.s = y.s /\ Len(x.a) = Len(y.a)
                 THEN Step(st, "Decompose", Zip(x.a, y.a) \o Rest(st), st.bind)
                 ELSE Stop(st, "Decompose", "fail")

G_List(st)    == HasWork(st) /\ Top(st)[1].k = "list" /\ Top(st)[2].k = "list"
D_List(st)    == LET x == Top(st)[1]  y == Top(st)[2] IN
                 IF x.a # <<>> /\ y.a # <<>>
                 THEN Step(st, "ListStep",
                           <<<<x.a[1], y.a[1]>>, <<RestL(x), RestL(y)>>>> \o Rest(st), st.bind)
                 ELSE IF NormL(x) # x \/ NormL(y) # y
                 THEN Step(st, "ListTail", <<<<NormL(x), NormL(y)>>>> \o Rest(st), st.bind)
                 ELSE Stop(st, "ListEnd", "fail")   \* [] against a non-empty list

G_Clash(st)   == HasWork(st)
D_Clash(st)   == Stop(st, "Clash", "fail")

StepFn(st) ==
    CASE G_Finish(st) -> D_Finish(st)
      [] G_Same(st)   -> D_Same(st)
      [] G_Anon(st)   -> D_Anon(st)
      [] G_FnL(st)    -> D_FnL(st)
      [] G_FnR(st)    -> D_FnR(st)
      [] G_DerefL(st) -> D_DerefL(st)
      [] G_DerefR(st) -> D_DerefR(st)
      [] G_BindL(st)  -> D_BindL(st)
      [] G_BindR(st)  -> D_BindR(st)
      [] G_Const(st)  -> D_Const(st)
      [] G_Cx(st)     -> D_Cx(st)
      [] G_List(st)   -> D_List(st)
      [] G_Clash(st)  -> D_Clash(st)
      [] OTHER        -> st

RECURSIVE RunU(_)
RunU(st) == IF st.status # "run" THEN st ELSE RunU(StepFn(st))

(* big-step interface used by the other modules (filters, head unification,  *)
(* the = predicate): result of unifying x with y under b                      *)
UnifyBig(x, y, b) == RunU(InitU(<<<<x, y>>>>, b))

=============================================================================
