----------------------------- MODULE MC_Syntax -----------------------------
(***************************************************************************)
(* Bounded-exhaustive input spaces for the parsers (C19, C20, C18):        *)
(*  slice "terms"   every term of the canonical grammar to depth 2 (3):    *)
(*                  canonical text, and the term in every placement context*)
(*  slice "goals"   goals and rules: canonical text and the alternative    *)
(*                  documented surface forms                               *)
(*  slice "strings" every string up to length 3 over the syntax alphabet,  *)
(*                  and one family per prefix for the longer ones          *)
(*  slice "mutants" canonical texts as seeds for the text mutations        *)
(* One behaviour: Pick an item -> Print it (text) -> done.                 *)
(***************************************************************************)
EXTENDS Syntax, Json, FiniteSets

CONSTANTS Tier, Slice

VARIABLE it

Thorough == Tier = "thorough"
AtomCodesDef == [s \in {} |-> <<>>]
FmtPiecesDef == [s \in {} |-> <<>>]
V(n) == Var(0, n)
a == Atom("a")

(* Text outside ASCII is written {U+XXXX} in this module (and in every other one): TLC keeps strings  *)
(* of a state as bytes when it moves states to disk, which corrupts such characters in larger runs.   *)
(* The checker replaces each {U+XXXX} by the character when it reads the emitted cases, so the        *)
(* implementation sees the real text.                                                                  *)
(* ------------------------------ terms ----------------------------------- *)
Leaves  == {a, Atom("Hello"), Atom("The Beaver"), Atom("x_1"), Atom("{U+6E0B}{U+8C37}"), V("${U+0426}{U+0435}{U+043D}{U+0430}"), IntT(0), IntT(7), IntT(42),
            FltTx("1.5"), FltTx("0.25"), FltTx("3.14159"), V("$X"), V("$Abc"), Anon,
            (* floats with all 16-17 significant digits, negative, small *)
            FltTx("3.141592653589793"), FltTx("0.30000000000000004"), FltTx("-1.4142135623730951"), FltTx("123456.789"), FltTx("0.000001")}
LeavesS == {a, Atom("The Beaver"), IntT(7), FltTx("1.5"), V("$X"), Anon}
LeavesT == {a, IntT(7), V("$X")}
Tails   == {V("$T"), Anon}
Depth1  ==
       {Cx("f", <<s>>) : s \in Leaves} \cup {Cx("g", <<s1, s2>>) : s1 \in LeavesS, s2 \in LeavesS}
  \cup {Cx("h", <<>>), Cx("triple", <<a, IntT(7), V("$X")>>), EmptyList}
  \cup {Lst(<<s>>) : s \in Leaves} \cup {Lst(<<s1, s2>>) : s1 \in LeavesS, s2 \in LeavesS}
  \cup {LstT(<<s>>, tl) : s \in LeavesS, tl \in Tails}
  \cup {LstT(<<s1, s2>>, tl) : s1 \in LeavesT, s2 \in LeavesT, tl \in Tails}
  \cup {Fn(op, <<s1, s2>>) : op \in {"add", "subtract", "multiply", "divide"}, s1 \in LeavesT, s2 \in LeavesT}
  \cup {Fn("join", <<s1, s2, s3>>) : s1 \in LeavesT, s2 \in {Atom("Hello")}, s3 \in LeavesT}
D1S == {Cx("f", <<a>>), Cx("g", <<V("$X"), IntT(7)>>), Cx("h", <<>>), EmptyList, Lst(<<a>>), Lst(<<V("$X"), a>>),
        LstT(<<a>>, V("$T")), Fn("add", <<V("$X"), IntT(7)>>), Lst(<<Atom("The Beaver")>>)}
Depth2  ==
       {Cx("f", <<d>>) : d \in D1S} \cup {Cx("g", <<d, s>>) : d \in D1S, s \in LeavesT}
  \cup {Cx("g", <<s, d>>) : d \in D1S, s \in LeavesT}
  \cup {Lst(<<d>>) : d \in D1S} \cup {Lst(<<s, d>>) : d \in D1S, s \in LeavesT}
  \cup {Lst(<<d, s>>) : d \in D1S, s \in LeavesT}
  \cup {LstT(<<d>>, V("$T")) : d \in D1S}
Depth3  == {Cx("f", <<Cx("g", <<d, a>>)>>) : d \in D1S} \cup {Lst(<<Lst(<<d>>), a>>) : d \in D1S}
           \cup {Cx("g", <<Lst(<<a, d>>), Cx("f", <<d>>)>>) : d \in D1S}
(* thorough: every depth-1 term in every argument / element position of a depth-2 term *)
Depth2T ==
       {Cx("f", <<d>>) : d \in Depth1} \cup {Cx("g", <<d, s>>) : d \in Depth1, s \in LeavesS}
  \cup {Cx("g", <<s, d>>) : d \in Depth1, s \in LeavesS}
  \cup {Lst(<<d>>) : d \in Depth1} \cup {Lst(<<s, d>>) : d \in Depth1, s \in LeavesS}
  \cup {Lst(<<d, s>>) : d \in Depth1, s \in LeavesS} \cup {LstT(<<d>>, tl) : d \in Depth1, tl \in Tails}
  \cup {LstT(<<s, d>>, V("$T")) : d \in Depth1, s \in LeavesT}
  \cup {Cx("triple", <<s, d, s2>>) : d \in D1S, s \in LeavesT, s2 \in LeavesT}
TermU == Leaves \cup Depth1 \cup Depth2 \cup (IF Thorough THEN Depth3 \cup Depth2T ELSE {})

(* texts that are terms of the language but not canonical prints (C20 only)     *)
RawTexts == {"-5", "+7", "-2.5", "+0.5", "\\,", "?", "!", "\"quoted text\"", "\"a, b\"", "f(-5)", "[-5, 7]"}

(* ------------------------------ goals, rules ---------------------------- *)
Args1 == {a, V("$X"), IntT(7), Lst(<<a, V("$X")>>), Cx("f", <<V("$Y")>>), FltTx("1.5"), Atom("The Beaver")}
Args2 == {a, V("$X"), IntT(7)}
Calls == {Call(Cx("p", <<s>>)) : s \in Args1} \cup {Call(Cx("q", <<s1, s2>>)) : s1 \in Args2, s2 \in Args2}
         \cup {Call(Cx("q", <<>>)), Call(Cx("go", <<>>))}
Bips  ==   {UnifyG(s1, s2) : s1 \in Args2, s2 \in Args1}
      \cup {UnifyG(V("$R"), Fn(op, <<s1, s2>>)) : op \in {"add", "subtract", "multiply", "divide"}, s1 \in Args2, s2 \in Args2}
      \cup {Bip(op, <<s1, s2>>) : op \in CmpOps, s1 \in Args2, s2 \in {V("$Y"), IntT(42), FltTx("0.25"), a}}
      \cup {Bip("print", <<s>>) : s \in Args1} \cup {Bip("print", <<Atom("%s and %s"), V("$X"), a>>)}
      \cup {Bip("append", <<s1, Lst(<<s2>>), V("$Out")>>) : s1 \in Args2, s2 \in Args2}
      \cup {Bip("functor", <<V("$X"), Atom("noun*"), V("$N")>>), Bip("count", <<Lst(<<a, a>>), V("$N")>>),
            Bip("include", <<Cx("f", <<Anon>>), V("$L"), V("$O")>>), Bip("exclude", <<a, Lst(<<a, IntT(7)>>), V("$O")>>),
            Bip("print_list", <<V("$L")>>), NlG, CutG, FailG}
      (* parentheses / brackets on BOTH sides of an infix operator: complex terms, lists of them, functions of functions *)
      \cup {Bip(op, <<Cx("f", <<a>>), Cx("g", <<V("$Y")>>)>>) : op \in CmpOps}
      \cup {Bip(op, <<Cx("h", <<>>), Cx("g", <<a, IntT(7)>>)>>) : op \in {"equal", "greater_than_or_equal"}}
      \cup {UnifyG(Cx("f", <<V("$X")>>), Cx("g", <<V("$Y")>>)), UnifyG(Cx("pair", <<V("$X"), a>>), Lst(<<Cx("h", <<V("$X")>>), a>>)),
            UnifyG(Lst(<<Cx("f", <<a>>)>>), Lst(<<Cx("g", <<V("$Y")>>), a>>)), Bip("less_than_or_equal", <<Lst(<<Cx("f", <<a>>)>>), Lst(<<Cx("g", <<a>>), a>>)>>),
            UnifyG(V("$R"), Fn("multiply", <<Fn("add", <<IntT(1), IntT(2)>>), Fn("subtract", <<IntT(7), IntT(3)>>)>>)),
            UnifyG(Fn("add", <<IntT(1), V("$X")>>), Fn("join", <<a, V("$Y")>>))}
(* text outside ASCII: multi-byte characters left and right of every infix operator, in functors, variables *)
Uni == {Atom("{U+6E0B}{U+8C37}"), V("${U+0426}{U+0435}{U+043D}{U+0430}"), Atom("{U+00E9}t{U+00E9}"), Cx("{U+0433}{U+043E}{U+0440}{U+043E}{U+0434}", <<Atom("{U+6E0B}{U+8C37}")>>)}
UniGoals ==   {UnifyG(u, s) : u \in Uni, s \in {V("$X"), a}} \cup {UnifyG(s, u) : u \in Uni, s \in {V("$X"), a}}
         \cup {Bip(op, <<u, s>>) : op \in CmpOps, u \in {Atom("{U+6E0B}{U+8C37}"), V("${U+0426}{U+0435}{U+043D}{U+0430}"), Atom("{U+00E9}t{U+00E9}")}, s \in {V("$Y"), Atom("{U+65E5}{U+672C}")}}
         \cup {UnifyG(V("$R"), Fn(op, <<V("${U+0426}{U+0435}{U+043D}{U+0430}"), IntT(5)>>)) : op \in {"add", "subtract", "multiply", "divide"}}
         \cup {UnifyG(Fn("add", <<V("${U+0426}{U+0435}{U+043D}{U+0430}"), IntT(5)>>), V("$R")), Call(Cx("{U+0433}{U+043E}{U+0440}{U+043E}{U+0434}", <<V("$X"), Atom("{U+6E0B}{U+8C37}")>>)),
               Bip("print", <<Atom("{U+6E0B}{U+8C37} %s"), V("${U+0426}{U+0435}{U+043D}{U+0430}")>>)}
SimpleS == {Call(Cx("p", <<V("$X")>>)), Call(Cx("q", <<a, V("$Y")>>)), UnifyG(V("$X"), a), Bip("less_than", <<V("$X"), IntT(7)>>),
            CutG, FailG, NlG, Bip("print", <<V("$X")>>), Call(Cx("go", <<>>)), NotG(Call(Cx("p", <<V("$X")>>)))}
Simple == Calls \cup Bips \cup UniGoals \cup {NotG(g) : g \in {Call(Cx("p", <<V("$X")>>)), UnifyG(V("$X"), a), Bip("equal", <<V("$X"), a>>), Call(Cx("go", <<>>))}}
          \cup {TimeG(g) : g \in {Call(Cx("p", <<V("$X")>>)), Call(Cx("go", <<>>)), Call(Cx("q", <<a, V("$Y")>>))}}
Conjs  == {AndG(<<g1, g2>>) : g1 \in SimpleS, g2 \in SimpleS} \cup {AndG(<<g1, g2, g3>>) : g1 \in SimpleS, g2 \in {CutG, UnifyG(V("$X"), a)}, g3 \in SimpleS}
ConjsS == {AndG(<<g1, g2>>) : g1 \in {Call(Cx("p", <<V("$X")>>)), CutG}, g2 \in {Call(Cx("q", <<a, V("$Y")>>)), FailG}}
Disjs  ==   {OrG(<<g1, g2>>) : g1 \in SimpleS, g2 \in SimpleS}
       \cup {OrG(<<g1, g2>>) : g1 \in ConjsS, g2 \in SimpleS} \cup {OrG(<<g1, g2>>) : g1 \in SimpleS, g2 \in ConjsS}
       \cup {OrG(<<g1, g2>>) : g1 \in ConjsS, g2 \in ConjsS}
       \cup {OrG(<<g1, g2, g3>>) : g1 \in ConjsS, g2 \in {Call(Cx("p", <<V("$X")>>))}, g3 \in ConjsS}
(* thorough: all conjunctions of three simple goals, disjunctions of two and three conjunctions, every call shape *)
ConjsT == {AndG(<<g1, g2, g3>>) : g1 \in SimpleS, g2 \in SimpleS, g3 \in SimpleS}
          \cup {AndG(<<g1, g2>>) : g1 \in Calls, g2 \in SimpleS}
ConjsM == {AndG(<<g1, g2>>) : g1 \in SimpleS, g2 \in {Call(Cx("q", <<a, V("$Y")>>)), FailG, CutG, Bip("print", <<V("$X")>>)}}
DisjsT == {OrG(<<g1, g2>>) : g1 \in ConjsM, g2 \in ConjsM} \cup {OrG(<<g1, g2, g3>>) : g1 \in ConjsS, g2 \in SimpleS, g3 \in ConjsS}
          \cup {OrG(<<g1, g2, g3>>) : g1 \in SimpleS, g2 \in SimpleS, g3 \in SimpleS}
(* infix arithmetic whose canonical (function) text does not print back (1.0 prints as 1): only the INFIX *)
(* text is parsed, and must give the function term with exactly these operands                          *)
IdOps == {IntT(7), IntT(0), IntT(1), FltTx("1.0"), FltTx("0.0"), FltTx("2.5"), V("$X")}
AltOnly == {UnifyG(V("$R"), Fn(op, <<s1, s2>>)) : op \in {"add", "subtract", "multiply", "divide"}, s1 \in IdOps, s2 \in IdOps}
           \cup {UnifyG(Fn(op, <<s1, s2>>), V("$R")) : op \in {"add", "multiply"}, s1 \in {IntT(7), FltTx("1.0"), V("$X")}, s2 \in {IntT(0), IntT(1), FltTx("0.0"), FltTx("1.0")}}
(* goal trees that need grouping parentheses: all trees of conjunctions and disjunctions of two operands to depth 2  *)
(* over three leaves, and depth-3 trees with one deep operand on either side (thorough: three-operand nodes too)     *)
GLeaves == {Call(Cx("p", <<V("$X")>>)), CutG, Call(Cx("go", <<>>))}
GOps(S1, S2) == {AndG(<<x, y>>) : x \in S1, y \in S2} \cup {OrG(<<x, y>>) : x \in S1, y \in S2}
GT1 == GLeaves \cup GOps(GLeaves, GLeaves)
GT2 == GOps(GT1, GT1)
GD2 == GT2 \ GOps(GLeaves, GLeaves)                                    \* depth exactly 2
GSmall == {Call(Cx("p", <<V("$X")>>)), CutG}
GT3 == GOps(GD2, GSmall) \cup GOps(GSmall, GD2)
GT3w == {AndG(<<x, y, z>>) : x \in GSmall, y \in GOps(GSmall, GSmall), z \in GT1} \cup {OrG(<<x, y, z>>) : x \in GT1, y \in GOps(GSmall, GSmall), z \in GSmall}
NeedsGroup(g) == ~CanonGoal(g)
GroupU == {g \in GT2 \cup (IF Thorough THEN GT3 \cup GT3w ELSE {g \in GT3 : g.gs[1] \in GSmall \/ g.gs[2] = CutG}) : NeedsGroup(g)}
GoalU == Simple \cup Conjs \cup Disjs \cup (IF Thorough THEN ConjsT \cup DisjsT ELSE {})
Heads == {Cx("h", <<V("$X")>>), Cx("h", <<V("$X"), Lst(<<V("$Y")>>)>>), Cx("h", <<a, IntT(7)>>), Cx("h", <<>>)}
BodiesR == SimpleS \cup ConjsS \cup {OrG(<<g1, g2>>) : g1 \in ConjsS, g2 \in ConjsS} \cup {AndG(<<g1, g2, g3>>) : g1 \in SimpleS, g2 \in {CutG}, g3 \in SimpleS}
RuleU == {Clause(h, bd) : h \in Heads, bd \in BodiesR \cup (IF Thorough THEN Simple \cup Conjs ELSE {})} \cup {Fact(h) : h \in Heads}
         \cup {Fact(Cx("p", <<s>>)) : s \in Args1} \cup {Fact(Cx("mother", <<Atom("June"), Atom("The Beaver")>>))}
         \cup {Clause(Cx("{U+0433}{U+043E}{U+0440}{U+043E}{U+0434}", <<V("$X")>>), g) : g \in {UnifyG(Atom("{U+6E0B}{U+8C37}"), V("$X")), AndG(<<Call(Cx("size", <<V("$S")>>)), UnifyG(Atom("{U+6E0B}{U+8C37}"), V("$X"))>>),
                                                     Bip("less_than", <<Atom("{U+00E9}t{U+00E9}"), V("$X")>>)}}

(* ------------------------------ strings (C18) --------------------------- *)
Alphabet == <<"a", "B", "1", "0", "$", "_", "(", ")", "[", "]", ",", ";", "|", ".", " ", "=", "<", ">",
              "+", "-", "\"", "\\", ":", "{U+00E9}", "{U+65E5}">>
(* multi-character tokens, inserted / substituted by the text mutations          *)
Tokens == <<" = ", " :- ", " ; ", ", ", "()", "[]", "$_", " == ", " + ", "not(", "$X", "\\,", "| $T", "!.", "1.5">>
Sym == {Alphabet[i] : i \in DOMAIN Alphabet}
Strings3 == {""} \cup Sym \cup {x \o y : x \in Sym, y \in Sym} \cup {x \o y \o z : x \in Sym, y \in Sym, z \in Sym}
Prefixes == {x \o y \o z : x \in Sym, y \in Sym, z \in Sym}

(* goal texts with parenthesised groups (single, doubled, tripled; around conjunctions and disjunctions): seeds *)
(* of the text mutations only (what they must parse to is not claimed here)                                     *)
GroupTexts == {"(a, b), c", "((a, b))", "((a; b))", "a, ((b; c))", "((a, b)), c", "(((a, b)))", "(a)", "((a))", "()", "a, (b; (c, d)), e",
               "p :- q, ((r, s)).", "p :- (q; r), s.", "not((a, b))", "((a; b), c)", "(a; b); c", "p($X) :- ((q($X))), !."}
(* ------------------------------ items ----------------------------------- *)
Items ==
    CASE Slice = "terms"   -> {[kind |-> "term", ast |-> t] : t \in TermU} \cup {[kind |-> "raw", ast |-> Atom(r)] : r \in RawTexts}
      [] Slice = "goals"   -> {[kind |-> "goal", ast |-> g] : g \in GoalU} \cup {[kind |-> "rule", ast |-> c] : c \in RuleU}
                              \cup {[kind |-> "altgoal", ast |-> g] : g \in AltOnly}
                              \cup {[kind |-> "groupgoal", ast |-> g] : g \in GroupU}
      [] Slice = "strings" -> {[kind |-> "string", ast |-> Atom(s)] : s \in Strings3}
                              \cup {[kind |-> "family", ast |-> Atom(s)] : s \in Prefixes}
      [] Slice = "mutants" -> {[kind |-> "seedtext", ast |-> Atom(tx)] : tx \in GroupTexts} \cup {[kind |-> "seedgoal", ast |-> g] : g \in Simple \cup ConjsS \cup {OrG(<<g1, g2>>) : g1 \in ConjsS, g2 \in ConjsS}}
                              \cup {[kind |-> "seedrule", ast |-> c] : c \in {Clause(h, bd) : h \in Heads, bd \in ConjsS} \cup {Fact(h) : h \in Heads}}
                              \cup {[kind |-> "seedterm", ast |-> t] : t \in Depth1 \cup D1S}

Init == \E x \in Items : it = [kind |-> x.kind, ast |-> x.ast, phase |-> "pick", text |-> "", alt |-> ""]

PrintIt ==
    /\ it.phase = "pick"
    /\ it' = [it EXCEPT !.phase = "done",
                !.text = CASE it.kind \in {"term", "seedterm"} -> PrintTerm(it.ast)
                           [] it.kind \in {"goal", "seedgoal"} -> PrintGoal(it.ast)
                           [] it.kind = "altgoal" -> AltGoal(it.ast)
                           [] it.kind = "groupgoal" -> GroupGoal(it.ast, FALSE)
                           [] it.kind \in {"rule", "seedrule"} -> PrintRule(it.ast)
                           [] OTHER -> it.ast.s,
                !.alt = IF it.kind = "groupgoal" THEN GroupGoal(it.ast, TRUE)
                        ELSE IF it.kind = "goal" /\ HasAlt(it.ast) THEN AltGoal(it.ast)
                        ELSE IF it.kind = "term" /\ IsArith2(it.ast) THEN AltTerm(it.ast)
                        ELSE IF it.kind = "rule" /\ it.ast.head.a = <<>>
                        THEN (IF it.ast.body = NoGoal THEN it.ast.head.s \o "."
                              ELSE it.ast.head.s \o " :- " \o PrintGoal(it.ast.body) \o ".")
                        ELSE ""]
Next == PrintIt
Spec == Init /\ [][Next]_it

(* ------------------------------ properties ------------------------------ *)
(* the canonical printer is injective on each universe: a round trip can only   *)
(* be demanded if no two ASTs share a text                                       *)
ASSUME Slice # "terms" \/ Cardinality({PrintTerm(t) : t \in TermU}) = Cardinality(TermU)
ASSUME Slice # "goals" \/ Cardinality({PrintGoal(g) : g \in GoalU}) = Cardinality(GoalU)
ASSUME Slice # "goals" \/ Cardinality({PrintRule(c) : c \in RuleU}) = Cardinality(RuleU)
ASSUME Slice # "goals" \/ \A g \in GoalU : CanonGoal(g)
(* a context embeds the term text verbatim (the contexts are string templates)   *)
Done == it.phase = "done"

(* ------------------------------ emission -------------------------------- *)
RECURSIVE PackG(_), PackGs(_)
PackG(g) == CASE g.g = "call" -> [g |-> "call", t |-> Pack(g.t)]
              [] g.g = "bip"  -> [g |-> "bip", f |-> g.f, a |-> PackSeq(g.a)]
              [] g.g = "nil"  -> [g |-> "nil"]
              [] OTHER -> [g |-> g.g, gs |-> PackGs(g.gs)]
PackGs(gs) == IF gs = <<>> THEN <<>> ELSE <<PackG(Head(gs))>> \o PackGs(Tail(gs))
PackT(t) == IF t.k = "ftx" THEN [k |-> "ftx", s |-> t.s] ELSE Pack(t)
Case ==
    CASE it.kind = "term" -> [t |-> "syn-term", text |-> it.text, alt |-> it.alt, ast |-> Pack(it.ast), contexts |-> Contexts(it.text), path |-> <<"term">>]
      [] it.kind = "raw"  -> [t |-> "syn-raw", text |-> it.text, contexts |-> Contexts(it.text), path |-> <<"raw">>]
      [] it.kind = "goal" -> [t |-> "syn-goal", text |-> it.text, alt |-> it.alt, ast |-> PackG(it.ast), path |-> <<"goal">>]
      [] it.kind = "altgoal" -> [t |-> "syn-altgoal", text |-> it.text, ast |-> PackG(it.ast), path |-> <<"altgoal">>]
      [] it.kind = "groupgoal" -> [t |-> "syn-groupgoal", text |-> it.text, alt |-> it.alt, ast |-> PackG(it.ast), path |-> <<"groupgoal">>]
      [] it.kind = "rule" -> [t |-> "syn-rule", text |-> it.text, alt |-> it.alt,
                              ast |-> [head |-> Pack(it.ast.head), body |-> PackG(it.ast.body)], path |-> <<"rule">>]
      [] it.kind = "string" -> [t |-> "syn-string", text |-> it.text, path |-> <<"string">>]
      [] it.kind = "family" -> [t |-> "syn-family", text |-> it.text, alphabet |-> Alphabet,
                                extra |-> IF Thorough THEN 2 ELSE 1, path |-> <<"family">>]
      [] OTHER -> [t |-> "syn-seed", text |-> it.text, alphabet |-> Alphabet \o Tokens,
                   depth |-> IF Thorough THEN 2 ELSE 1, path |-> <<"seed">>]
Emit == Done => PrintT(<<"CASE", ToJson(Case)>>)

=============================================================================
