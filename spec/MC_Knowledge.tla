--------------------------- MODULE MC_Knowledge ---------------------------
(***************************************************************************)
(* X02 (behaviour beyond the listed properties; C01 and C21 lean on it):   *)
(* every sequence of 1-3 (thorough 4) clauses over a pool with two         *)
(* predicates of the same functor and different arity, facts, rules and a  *)
(* repeated fact, divided into batches in every way (plus an empty batch). *)
(* TLC steps the add_rules loop (Knowledge.tla), checks KBIsHistory,       *)
(* KeysApart, NoEmptyEntry in every state and FlatEquivalent at the end;   *)
(* the harness builds the real knowledge base batch by batch in three ways *)
(* (add_rules on constructed rules, add_rules on parsed rules, one source  *)
(* file per batch loaded into the same knowledge base) and compares        *)
(* count_rules, get_rule, format_kb and the answers of four queries.       *)
(***************************************************************************)
EXTENDS Knowledge, Json, FiniteSets

CONSTANTS Tier, Slice, Depth

VARIABLE plan0
mcvars == <<kvars, plan0>>
Thorough == Tier = "thorough"
N == IF Thorough THEN 4 ELSE 3

V(n) == Var(0, n)
a == Atom("a") b == Atom("b") c == Atom("c")
X == V("$X") Y == V("$Y") Z == V("$Z") W == V("$W")
AtomCodesDef == [s \in {"a", "b", "c"} |-> CASE s = "a" -> <<97>> [] s = "b" -> <<98>> [] s = "c" -> <<99>>]
FmtPiecesDef == [s \in {} |-> <<>>]

Pool == << Fact(Cx("p", <<a>>)), Fact(Cx("p", <<b>>)), Clause(Cx("p", <<X>>), Call(Cx("q", <<X>>))), Fact(Cx("q", <<c>>)),
           Fact(Cx("p", <<a, b>>)), Fact(Cx("q", <<a>>)),
           Clause(Cx("p", <<X, Y>>), AndG(<<Call(Cx("q", <<X>>)), Call(Cx("p", <<Y>>))>>)) >>
Queries == << Cx("p", <<Z>>), Cx("q", <<Z>>), Cx("p", <<Z, W>>), Cx("r", <<Z>>) >>

RECURSIVE SeqsOfLen(_)
SeqsOfLen(n) == IF n = 0 THEN {<<>>} ELSE {<<Pool[i]>> \o s : i \in DOMAIN Pool, s \in SeqsOfLen(n - 1)}
(* the clauses sq divided after the positions in cuts *)
RECURSIVE Split(_, _, _)
Split(sq, cuts, i) ==
    IF sq = <<>> THEN <<>>
    ELSE LET rest == Split(Tail(sq), cuts, i + 1) IN
         IF i \in cuts \/ rest = <<>> THEN <<<<Head(sq)>>>> \o rest
         ELSE <<<<Head(sq)>> \o Head(rest)>> \o Tail(rest)
Plans == UNION {{Split(sq, cuts, 1) : cuts \in SUBSET (1 .. (Len(sq) - 1))} : sq \in UNION {SeqsOfLen(n) : n \in 1 .. N}}
         \cup {<<<<>>, <<Pool[1]>>, <<>>, <<Pool[5], Pool[2]>>>>}      \* add_rules with no rules at all

Init == \E pl \in Plans : KInit(pl) /\ plan0 = pl
Next == KNext /\ UNCHANGED plan0
Spec == Init /\ [][Next]_mcvars

Done == pending = <<>>
(* the search does not depend on how the knowledge base came about: over the knowledge base, read predicate by   *)
(* predicate, every query observes what it observes over the clauses in the order they were added                *)
FlatEquivalent == Done => \A i \in DOMAIN Queries : Observed(Flat, Queries[i], Depth) = Observed(added, Queries[i], Depth)

(* ------------------------------ emission -------------------------------- *)
RECURSIVE PackGoal(_), PackGoals(_)
PackGoal(g) == CASE g.g = "call" -> [g |-> "call", t |-> Pack(g.t)]
                 [] g.g = "bip"  -> [g |-> "bip", f |-> g.f, a |-> PackSeq(g.a)]
                 [] g.g = "nil"  -> [g |-> "nil"]
                 [] OTHER -> [g |-> g.g, gs |-> PackGoals(g.gs)]
PackGoals(gs) == IF gs = <<>> THEN <<>> ELSE <<PackGoal(Head(gs))>> \o PackGoals(Tail(gs))
RECURSIVE PackProg(_)
PackProg(pg) == IF pg = <<>> THEN <<>>
                ELSE <<[head |-> Pack(Head(pg).head), body |-> PackGoal(Head(pg).body)]>> \o PackProg(Tail(pg))
RECURSIVE PackBatches(_)
PackBatches(bs) == IF bs = <<>> THEN <<>> ELSE <<PackProg(Head(bs))>> \o PackBatches(Tail(bs))
RECURSIVE PackSegs(_)
PackSegs(ss) == IF ss = <<>> THEN <<>>
                ELSE <<[out |-> Head(ss).out, some |-> Head(ss).some, ans |-> PackSeq(Head(ss).ans)]>> \o PackSegs(Tail(ss))
RECURSIVE PackKeys(_)
PackKeys(ks) == IF ks = {} THEN <<>>
                ELSE LET k == CHOOSE x \in ks : TRUE IN <<[functor |-> k[1], arity |-> k[2], clauses |-> PackProg(kb[k])]>> \o PackKeys(ks \ {k})
RECURSIVE PackQueries(_)
PackQueries(qs) == IF qs = <<>> THEN <<>>
                   ELSE <<[query |-> Pack(Head(qs)), expect |-> PackSegs(Observed(added, Head(qs), Depth))]>> \o PackQueries(Tail(qs))
Case == [ t |-> "knowledge", slice |-> Slice, batches |-> PackBatches(plan0), keys |-> PackKeys(DOMAIN kb),
          queries |-> PackQueries(Queries), path |-> <<"AddOne">> ]
Emit == Done => PrintT(<<"CASE", ToJson(Case)>>)

=============================================================================
