---------------------------- MODULE TraceBuiltins ----------------------------
(***************************************************************************)
(* Trace validation of the built-in predicates and functions (C04, C12-C17):*)
(* randomly generated calls (append, count, include / exclude, functor, the *)
(* comparisons, `=` with arithmetic / join function terms, print,           *)
(* print_list, nl) under random prior bindings, RECORDED from the real      *)
(* engine, are checked against the functional semantics of Builtins.tla.    *)
(*                                                                         *)
(*    call   f, args, prior      the engine is about to run the goal        *)
(*    res    status, vals, out   success / failure, the resolved canonical  *)
(*           again, out2         value of every variable and argument, the  *)
(*                               text written; a second request and its text*)
(*    panic / crash / hang       the engine did not return                  *)
(*                                                                         *)
(* For each call BipSem(f, args, prior) is evaluated.  "out" (the documented *)
(* meaning is silent: unbound inputs, overflow, inexact floats, ...) ends   *)
(* the call without a verdict.  Otherwise the recorded outcome must be the  *)
(* model's: same success, same values up to renaming of unbound variables,  *)
(* same text, and a second request fails silently (built-ins succeed at     *)
(* most once).  A call that differs is reported (REJECTED with the          *)
(* component that differs, and the call as a case of the replay driver).    *)
(***************************************************************************)
EXTENDS Builtins, Json, IOUtils

VARIABLES l, pend, nok, nskip, nrej, phase, counts

vars == <<l, pend, nok, nskip, nrej, phase, counts>>

ASSUME TLCSet(9, ndJsonDeserialize(IOEnv.TRACE))
Rec == TLCGet(9)
More == l <= Len(Rec)
TEv == Rec[l]

(* the recorder's atoms with their code points, its format strings with their pieces *)
AtomCodesDef ==
    [s \in {"a", "b", "c", "d", "ab", "B", "a b", "z", "10", "x", "9", "07", "f", "g", "h", "noun_phrase", "np4", "noun*", "no*", "*", "f*", "x*", "fg*", ",", ".", "?", "!", "%s", "<%s>", "x%s", "%s-%s", "%s%s", "a%sb%sc", "go", "<unprojectable>"} |->
       CASE s = "a" -> <<97>>
         [] s = "b" -> <<98>>
         [] s = "c" -> <<99>>
         [] s = "d" -> <<100>>
         [] s = "ab" -> <<97, 98>>
         [] s = "B" -> <<66>>
         [] s = "a b" -> <<97, 32, 98>>
         [] s = "z" -> <<122>>
         [] s = "10" -> <<49, 48>>
         [] s = "x" -> <<120>>
         [] s = "9" -> <<57>>
         [] s = "07" -> <<48, 55>>
         [] s = "f" -> <<102>>
         [] s = "g" -> <<103>>
         [] s = "h" -> <<104>>
         [] s = "noun_phrase" -> <<110, 111, 117, 110, 95, 112, 104, 114, 97, 115, 101>>
         [] s = "np4" -> <<110, 112, 52>>
         [] s = "noun*" -> <<110, 111, 117, 110, 42>>
         [] s = "no*" -> <<110, 111, 42>>
         [] s = "*" -> <<42>>
         [] s = "f*" -> <<102, 42>>
         [] s = "x*" -> <<120, 42>>
         [] s = "fg*" -> <<102, 103, 42>>
         [] s = "," -> <<44>>
         [] s = "." -> <<46>>
         [] s = "?" -> <<63>>
         [] s = "!" -> <<33>>
         [] s = "%s" -> <<37, 115>>
         [] s = "<%s>" -> <<60, 37, 115, 62>>
         [] s = "x%s" -> <<120, 37, 115>>
         [] s = "%s-%s" -> <<37, 115, 45, 37, 115>>
         [] s = "%s%s" -> <<37, 115, 37, 115>>
         [] s = "a%sb%sc" -> <<97, 37, 115, 98, 37, 115, 99>>
         [] s = "go" -> <<103, 111>>
         [] s = "<unprojectable>" -> <<60, 117, 110, 112, 114, 111, 106, 101, 99, 116, 97, 98, 108, 101, 62>>]
FmtPiecesDef ==
    [s \in {"%s", "<%s>", "x%s", "%s-%s", "%s%s", "a%sb%sc"} |->
       CASE s = "%s" -> <<"", "">>
         [] s = "<%s>" -> <<"<", ">">>
         [] s = "x%s" -> <<"x", "">>
         [] s = "%s-%s" -> <<"", "-", "">>
         [] s = "%s%s" -> <<"", "", "">>
         [] s = "a%sb%sc" -> <<"a", "b", "c">>]

RECURSIVE Unpack(_), UnpackSeq(_)
Unpack(j) ==
    CASE j.k = "atom" -> Atom(j.s)
      [] j.k = "int"  -> T("int", j.s, j.n, j.e, <<>>, <<>>)
      [] j.k = "flt"  -> T("flt", j.s, j.n, j.e, <<>>, <<>>)
      [] j.k = "var"  -> Var(j.n, j.s)
      [] j.k = "anon" -> Anon
      [] j.k = "cx"   -> Cx(j.s, UnpackSeq(j.a))
      [] j.k = "fn"   -> Fn(j.s, UnpackSeq(j.a))
      [] j.k = "list" -> T("list", "", 0, 0, UnpackSeq(j.a), UnpackSeq(j.t))
      [] j.k = "none" -> NoT
      [] OTHER -> Atom("<unprojectable>")
UnpackSeq(s) == IF Len(s) = 0 THEN <<>> ELSE <<Unpack(s[1])>> \o UnpackSeq(SubSeq(s, 2, Len(s)))

RECURSIVE NormDeep(_), NormDeepSeq(_)
NormDeep(t) == CASE t.k \in {"int", "flt"} -> (IF t.k = "flt" /\ t.s = "-0" THEN Flt(0, 0) ELSE NormNum(t))
                 [] t.k = "var" -> Var(t.n, "")
                 [] t.k \in {"cx", "fn"} -> [t EXCEPT !.a = NormDeepSeq(t.a)]
                 [] t.k = "list" -> [t EXCEPT !.a = NormDeepSeq(t.a), !.t = NormDeepSeq(t.t)]
                 [] OTHER -> t
NormDeepSeq(ts) == IF ts = <<>> THEN <<>> ELSE <<NormDeep(Head(ts))>> \o NormDeepSeq(Tail(ts))

Init == /\ l = 1 /\ pend = <<>> /\ nok = 0 /\ nskip = 0 /\ nrej = 0 /\ phase = "run"
        /\ counts = [f \in {} |-> 0]

Call ==
    /\ phase = "run" /\ More /\ TEv.e = "call" /\ pend = <<>>
    /\ pend' = <<[f |-> TEv.f, args |-> UnpackSeq(TEv.args), prior |-> UnpackSeq(TEv.prior)]>>
    /\ l' = l + 1
    /\ UNCHANGED <<nok, nskip, nrej, phase, counts>>

P == pend[1]
Model == BipSem(P.f, P.args, P.prior)
Watch(b) == NormDeepSeq(Canon(ResolveSeq(VarVec(1, Len(P.prior)) \o P.args, b)))

Diff(ev, r) ==
    IF ev.status # r.st THEN "status"
    ELSE IF NormDeepSeq(UnpackSeq(ev.vals)) # Watch(r.b) THEN "values"
    ELSE IF ev.out # r.out THEN "output"
    ELSE IF ev.again \/ ev.out2 # "" THEN "again"
    ELSE ""

(* the rejected call as a case of the replay driver (./check <ID> --replay) *)
CaseOf(r) ==
    [t |-> "bip", slice |-> "trace", f |-> P.f, args |-> PackSeq(P.args), prior |-> PackSeq(P.prior),
     status |-> r.st, out |-> r.out, res |-> PackSeq(Canon(ResolveSeq(VarVec(1, Len(P.prior)) \o P.args, r.b))),
     fmt |-> [s \in DOMAIN FmtPiecesDef |-> FmtPiecesDef[s]], path |-> <<P.f, r.st>>]

Bump(f) == IF f \in DOMAIN counts THEN [counts EXCEPT ![f] = @ + 1] ELSE counts @@ (f :> 1)

Res ==
    /\ phase = "run" /\ More /\ TEv.e = "res" /\ pend # <<>>
    /\ LET r == Model IN
       IF r.st = "out"
       THEN /\ nskip' = nskip + 1 /\ UNCHANGED <<nok, nrej, counts>>
       ELSE LET d == Diff(TEv, r) IN
            IF d = "" THEN /\ nok' = nok + 1 /\ counts' = Bump(P.f) /\ UNCHANGED <<nskip, nrej>>
            ELSE /\ PrintT(<<"REJECTED", [at |-> l, kind |-> d, f |-> P.f, malformed |-> TEv.malformed, case |-> ToJson(CaseOf(r))]>>)
                 /\ nrej' = nrej + 1 /\ UNCHANGED <<nok, nskip, counts>>
    /\ pend' = <<>> /\ l' = l + 1 /\ UNCHANGED phase

Died ==
    /\ phase = "run" /\ More /\ TEv.e \in {"panic", "crash", "hang"} /\ pend # <<>>
    /\ LET r == Model IN
       IF r.st = "out" THEN /\ nskip' = nskip + 1 /\ UNCHANGED <<nok, nrej>>
       ELSE /\ PrintT(<<"REJECTED", [at |-> l, kind |-> TEv.e, f |-> P.f, malformed |-> FALSE, case |-> ToJson(CaseOf(r))]>>)
            /\ nrej' = nrej + 1 /\ UNCHANGED <<nok, nskip>>
    /\ pend' = <<>> /\ l' = l + 1 /\ UNCHANGED <<phase, counts>>

Finished ==
    /\ phase = "run" /\ ~More
    /\ PrintT(<<"VALIDATED", nok, nskip, nrej, l - 1>>)
    /\ PrintT(<<"COUNTS", ToJson(counts)>>)
    /\ phase' = "done"
    /\ UNCHANGED <<l, pend, nok, nskip, nrej, counts>>

Next == Call \/ Res \/ Died \/ Finished
Spec == Init /\ [][Next]_vars

Consumed == (phase = "done") => ~More

=============================================================================
