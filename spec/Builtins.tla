------------------------------ MODULE Builtins ------------------------------
(***************************************************************************)
(* Built-in PREDICATES: the documented meaning of each, as a function      *)
(*     BipSem(functor, args, b) = [st, b, out]                             *)
(*  st  "ok"   the goal succeeds (once) and returns bindings b             *)
(*      "fail" the goal fails                                              *)
(*      "out"  the documentation (and the listed property) is silent       *)
(*  out the text written to standard output (print, print_list, nl)        *)
(* Atoms carry their code points in AtomCodes (TLC cannot index strings);  *)
(* the harness checks that table against the real strings.                 *)
(***************************************************************************)
EXTENDS Unify

CONSTANT AtomCodes      \* function: atom string -> sequence of code points

R(st, b, out) == [st |-> st, b |-> b, out |-> out]

(* ---------------- comparison (C14) ---------------- *)
RECURSIVE LexLess(_, _)
LexLess(c1, c2) == IF c2 = <<>> THEN FALSE
                   ELSE IF c1 = <<>> THEN TRUE
                   ELSE IF Head(c1) # Head(c2) THEN Head(c1) < Head(c2)
                   ELSE LexLess(Tail(c1), Tail(c2))

CmpOps == {"equal", "less_than", "less_than_or_equal", "greater_than", "greater_than_or_equal"}

AdjOf(t)  == IF t.k = "int" /\ t.s = "+1" THEN 1 ELSE IF t.k = "int" /\ t.s = "-1" THEN -1 ELSE 0
BaseOf(t) == IF t.k = "int" THEN Val(t.n, t.e) ELSE ValOf(t)
(* x, y are constants: "lt" | "eq" | "gt" | "none" (not comparable)            *)
Order(x, y) ==
    IF x.k = "atom" /\ y.k = "atom"
    THEN (IF x.s = y.s THEN "eq"
          ELSE IF LexLess(AtomCodes[x.s], AtomCodes[y.s]) THEN "lt" ELSE "gt")
    ELSE IF IsNum(x) /\ IsNum(y)
    THEN (IF ~Finite(BaseOf(x)) \/ ~Finite(BaseOf(y)) THEN "none"
          ELSE IF ~EqV(BaseOf(x), BaseOf(y)) THEN (IF LessV(BaseOf(x), BaseOf(y)) THEN "lt" ELSE "gt")
          (* the same power of two: two integers are told apart by their +1 / -1; next to a float the      *)
          (* integer is converted first, and the neighbours of 2^54 and more convert to the power itself    *)
          ELSE IF x.k = "int" /\ y.k = "int"
          THEN (IF AdjOf(x) = AdjOf(y) THEN "eq" ELSE IF AdjOf(x) < AdjOf(y) THEN "lt" ELSE "gt")
          ELSE "eq")
    ELSE "none"

CmpSem(op, args, b) ==
    IF Len(args) # 2 THEN R("out", b, "")
    ELSE LET x == Walk(args[1], b)  y == Walk(args[2], b) IN
         IF ~IsConst(x) \/ ~IsConst(y) THEN R("fail", b, "")
         ELSE LET o == Order(x, y)
                  holds == CASE op = "equal" -> o = "eq"
                             [] op = "less_than" -> o = "lt"
                             [] op = "less_than_or_equal" -> o \in {"lt", "eq"}
                             [] op = "greater_than" -> o = "gt"
                             [] op = "greater_than_or_equal" -> o \in {"gt", "eq"}
              IN IF holds THEN R("ok", b, "") ELSE R("fail", b, "")

(* ---------------- unification as a goal ---------------- *)
UnifySem(x, y, b) ==
    LET r == UnifyBig(x, y, b) IN
    IF r.status = "ok" THEN R("ok", r.bind, "")
    ELSE IF r.status = "fail" THEN R("fail", b, "")
    ELSE R("out", b, "")

(* ---------------- lists: append (C16) ---------------- *)
(* elements contributed by one input argument; <<"out">> marks "outside"      *)
ProperList(r) == r.k = "list" /\ r.t = <<>>
AppendPart(t, b) ==
    LET r == Resolve(t, b) IN
    IF r.k = "list" THEN (IF r.t = <<>> THEN [ok |-> TRUE, els |-> r.a] ELSE [ok |-> FALSE, els |-> <<>>])
    ELSE IF r.k \in {"var", "anon", "fn"} THEN [ok |-> FALSE, els |-> <<>>]
    ELSE [ok |-> TRUE, els |-> <<r>>]

RECURSIVE AppendAll(_, _)
AppendAll(ts, b) ==
    IF ts = <<>> THEN [ok |-> TRUE, els |-> <<>>]
    ELSE LET h == AppendPart(Head(ts), b)  r == AppendAll(Tail(ts), b)
         IN [ok |-> h.ok /\ r.ok, els |-> h.els \o r.els]

AppendSem(args, b) ==
    IF Len(args) < 2 THEN R("out", b, "")
    ELSE LET ins == SubSeq(args, 1, Len(args) - 1)
             all == AppendAll(ins, b)
         IN IF ~all.ok THEN R("out", b, "")
            ELSE UnifySem(args[Len(args)], Lst(all.els), b)

(* ---------------- lists: count (C17) ---------------- *)
CountSem(args, b) ==
    IF Len(args) # 2 THEN R("out", b, "")
    ELSE LET r == Resolve(args[1], b) IN
         (* documented: count([a | $_]) = 2 ; an unbound NAMED tail variable is undocumented *)
         IF r.k # "list" \/ (r.t # <<>> /\ r.t[1].k # "anon") THEN R("out", b, "")
         ELSE LET n == Len(r.a) + (IF r.t = <<>> THEN 0 ELSE 1)
              IN UnifySem(args[2], IntT(n), b)

(* ---------------- lists: include / exclude (C17) ---------------- *)
RECURSIVE FilterEls(_, _, _, _)
FilterEls(f, els, b, incl) ==
    IF els = <<>> THEN [ok |-> TRUE, els |-> <<>>]
    ELSE LET u == UnifyBig(f, Head(els), b)
             rest == FilterEls(f, Tail(els), b, incl)
             pass == u.status = "ok"
         IN IF u.status \notin {"ok", "fail"} THEN [ok |-> FALSE, els |-> <<>>]
            ELSE [ok |-> rest.ok,
                  els |-> IF pass = incl THEN <<Head(els)>> \o rest.els ELSE rest.els]

FilterSem(incl, args, b) ==
    IF Len(args) # 3 THEN R("out", b, "")
    ELSE LET r == Resolve(args[2], b) IN
         IF ~ProperList(r) THEN R("out", b, "")
         ELSE LET f == FilterEls(args[1], r.a, b, incl) IN
              IF ~f.ok THEN R("out", b, "")
              ELSE UnifySem(args[3], Lst(f.els), b)

(* ---------------- functor (C17) ---------------- *)
RECURSIVE IsPrefix(_, _)
IsPrefix(p, s) == IF p = <<>> THEN TRUE
                  ELSE IF s = <<>> THEN FALSE
                  ELSE Head(p) = Head(s) /\ IsPrefix(Tail(p), Tail(s))
Star == 42
FunctorMatches(functor, pat) ==
    LET pc == AtomCodes[pat]  fc == AtomCodes[functor] IN
    IF pc # <<>> /\ pc[Len(pc)] = Star
    THEN IsPrefix(SubSeq(pc, 1, Len(pc) - 1), fc)
    ELSE functor = pat

FunctorSem(args, b) ==
    IF Len(args) \notin {2, 3} THEN R("out", b, "")
    ELSE LET c == Walk(args[1], b)  f == Walk(args[2], b) IN
         IF c.k # "cx" THEN R("fail", b, "")
         ELSE LET r1 == IF f.k = "atom"
                        THEN (IF FunctorMatches(c.s, f.s) THEN R("ok", b, "") ELSE R("fail", b, ""))
                        ELSE IF f.k = "var" THEN UnifySem(f, Atom(c.s), b)
                        ELSE R("fail", b, "")
              IN IF r1.st # "ok" \/ Len(args) = 2 THEN r1
                 ELSE LET r2 == UnifySem(args[3], IntT(Len(c.a)), r1.b)
                      IN IF r2.st = "fail" THEN R("fail", b, "") ELSE r2

(* ---------------- output: print, print_list, nl (C04) ---------------- *)
(* text of a GROUND constant argument; the generators only print atoms and     *)
(* small integers (given literally or through variable chains)                  *)
(* text of a ground argument as Display shows it: atoms, small integers, complex   *)
(* terms f(a, b), h() and proper lists [a, b] of such terms                        *)
RECURSIVE Showable(_), ShowT(_), ShowTs(_)
Showable(r) == \/ r.k = "atom" \/ (r.k = "int" /\ r.e = 0)
               \/ (r.k = "cx" /\ \A i \in DOMAIN r.a : Showable(r.a[i]))
               \/ (r.k = "list" /\ r.t = <<>> /\ \A i \in DOMAIN r.a : Showable(r.a[i]))
ShowT(r) == CASE r.k = "atom" -> r.s
              [] r.k = "int"  -> ToString(r.n)
              [] r.k = "cx"   -> r.s \o "(" \o ShowTs(r.a) \o ")"
              [] r.k = "list" -> "[" \o ShowTs(r.a) \o "]"
ShowTs(ts) == IF ts = <<>> THEN ""
              ELSE IF Len(ts) = 1 THEN ShowT(ts[1])
              ELSE ShowT(Head(ts)) \o ", " \o ShowTs(Tail(ts))
(* the argument itself, or the value its variable chain ends in, must be ground as  *)
(* written (a term with bound variables INSIDE it is not claimed)                   *)
Printable(t, b) == Showable(Walk(t, b))
TextOf(t, b)    == ShowT(Walk(t, b))

(* print(fmt, a1..an): the %s markers of fmt are given as the pieces between    *)
(* them: fmt is an atom whose text has no marker (concatenation), or the case   *)
(* carries the pieces explicitly in FmtPieces[fmt]                              *)
CONSTANT FmtPieces      \* function: format atom -> sequence of pieces (strings)

RECURSIVE Interleave(_, _)
Interleave(pieces, argtexts) ==
    IF pieces = <<>> THEN ""
    ELSE IF argtexts = <<>> THEN Head(pieces)      \* (only when Len(pieces) = 1)
    ELSE Head(pieces) \o Head(argtexts) \o Interleave(Tail(pieces), Tail(argtexts))

RECURSIVE Concat(_)
Concat(ss) == IF ss = <<>> THEN "" ELSE Head(ss) \o Concat(Tail(ss))

RECURSIVE TextsOf(_, _)
TextsOf(ts, b) == IF ts = <<>> THEN <<>> ELSE <<TextOf(Head(ts), b)>> \o TextsOf(Tail(ts), b)

PrintSem(args, b) ==
    IF args = <<>> \/ \E i \in DOMAIN args : ~Printable(args[i], b) THEN R("out", b, "")
    ELSE LET f == Walk(args[1], b)
             rest == TextsOf(Tail(args), b)
             pieces == IF f.k = "atom" /\ f.s \in DOMAIN FmtPieces THEN FmtPieces[f.s] ELSE <<TextOf(f, b)>>
         IN IF Len(pieces) = 1
            THEN R("ok", b, pieces[1] \o Concat(rest))                \* no marker: concatenate
            ELSE IF Len(pieces) = Len(rest) + 1
            THEN R("ok", b, Interleave(pieces, rest))                 \* k markers, k arguments
            ELSE R("out", b, "")                                      \* count mismatch: undocumented

(* print_list(l): elements separated by ", " and a newline                      *)
RECURSIVE CommaSep(_)
CommaSep(ss) == IF ss = <<>> THEN ""
                ELSE IF Len(ss) = 1 THEN ss[1]
                ELSE Head(ss) \o ", " \o CommaSep(Tail(ss))
(* the elements of the list as WRITTEN, following its bound tail variables (the    *)
(* elements themselves are not looked into)                                         *)
RECURSIVE SpineF(_, _, _)
SpineF(t, b, fuel) ==
    LET w == Walk(t, b) IN
    IF w.k # "list" \/ fuel = 0 THEN [ok |-> FALSE, els |-> <<>>]
    ELSE IF w.t = <<>> THEN [ok |-> TRUE, els |-> w.a]
    ELSE LET r == SpineF(w.t[1], b, fuel - 1) IN [ok |-> r.ok, els |-> w.a \o r.els]
Spine(t, b) == SpineF(t, b, Len(b) + 2)
PrintListSem(args, b) ==
    IF Len(args) # 1 THEN R("out", b, "")
    ELSE LET sp == Spine(args[1], b) IN
         (* each element, or the value its variable chain ends in, must be ground as written *)
         IF ~sp.ok \/ \E i \in DOMAIN sp.els : ~Printable(sp.els[i], b) THEN R("out", b, "")
         ELSE R("ok", b, CommaSep(TextsOf(sp.els, b)) \o "\n")

(* ---------------- dispatch ---------------- *)
BipSem(f, args, b) ==
    CASE f \in CmpOps    -> CmpSem(f, args, b)
      [] f = "unify"     -> IF Len(args) = 2 THEN UnifySem(args[1], args[2], b) ELSE R("out", b, "")
      [] f = "append"    -> AppendSem(args, b)
      [] f = "count"     -> CountSem(args, b)
      [] f = "include"   -> FilterSem(TRUE, args, b)
      [] f = "exclude"   -> FilterSem(FALSE, args, b)
      [] f = "functor"   -> FunctorSem(args, b)
      [] f = "print"     -> PrintSem(args, b)
      [] f = "print_list" -> PrintListSem(args, b)
      [] f = "nl"        -> R("ok", b, "\n")
      [] f = "fail"      -> R("fail", b, "")
      [] OTHER           -> R("out", b, "")

=============================================================================
