------------------------------ MODULE MC_Timer ------------------------------
(***************************************************************************)
(* C23: all interleavings of NQ consecutive solve() calls with their timer *)
(* threads.  With GenerationFix the invariants hold; the emitted CASEs are *)
(* the distinct SCHEDULES (where the main thread was when each timer's     *)
(* callback ran) which the harness replays against the real timer through  *)
(* the callback gate.                                                      *)
(***************************************************************************)
EXTENDS Timer, Json

CONSTANTS Tier, Slice

RECURSIVE PackCb(_)
PackCb(s) == IF s = <<>> THEN <<>> ELSE <<[timer |-> Head(s)[1], query |-> Head(s)[2], at |-> Head(s)[3]]>> \o PackCb(Tail(s))
RECURSIVE SetToSeq(_)
SetToSeq(S) == IF S = {} THEN <<>> ELSE LET x == CHOOSE y \in S : TRUE IN <<x>> \o SetToSeq(S \ {x})
AllOver == mpc = "done" /\ \A i \in Q : tpc[i] \in {"gone", "none"}
Case == [ t |-> "timer", slice |-> Slice, nq |-> NQ, slow |-> SetToSeq(Slow), callbacks |-> PackCb(cbAt),
          reported |-> [i \in Q |-> reported[i]], path |-> <<"timer">> ]
Emit == AllOver => PrintT(<<"CASE", ToJson(Case)>>)
=============================================================================
