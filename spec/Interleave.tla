----------------------------- MODULE Interleave -----------------------------
(***************************************************************************)
(* Two searches alive at the same time over one knowledge base.            *)
(*                                                                         *)
(* Both queries are built first; then solutions are requested from the one *)
(* or the other in any order.  The machine is the PRODUCT of two           *)
(* single-search machines which share nothing: a request to one search     *)
(* moves that search one observation forward (SLD.tla's Observed) and      *)
(* leaves the other where it was.  That is the claim the implementation    *)
(* must meet although its searches do share state (the id counter of       *)
(* renaming apart, C10: "no fresh variable is in use elsewhere in the      *)
(* current search" -- also when another search moved the counter in        *)
(* between).                                                               *)
(***************************************************************************)
EXTENDS SLD

CONSTANT IlDepth

VARIABLES iprog, iqa, iqb,     \* the knowledge base and the two queries
          ia, ib,              \* how many requests each search has answered
          isched               \* the requests so far: a sequence of "A" / "B"

ivars == <<iprog, iqa, iqb, ia, ib, isched>>

ObsA == Observed(iprog, iqa, IlDepth)
ObsB == Observed(iprog, iqb, IlDepth)

IInit(prog, qa, qb) == iprog = prog /\ iqa = qa /\ iqb = qb /\ ia = 0 /\ ib = 0 /\ isched = <<>>

AskA == ia < Len(ObsA) /\ ia' = ia + 1 /\ isched' = Append(isched, "A") /\ UNCHANGED <<iprog, iqa, iqb, ib>>
AskB == ib < Len(ObsB) /\ ib' = ib + 1 /\ isched' = Append(isched, "B") /\ UNCHANGED <<iprog, iqa, iqb, ia>>
INext == AskA \/ AskB

IDone == ia = Len(ObsA) /\ ib = Len(ObsB)
(* what the k-th request of the schedule must observe *)
RECURSIVE CountIn(_, _, _)
CountIn(sq, who, upto) == IF upto = 0 THEN 0 ELSE (IF sq[upto] = who THEN 1 ELSE 0) + CountIn(sq, who, upto - 1)
ReplyAt(k) == IF isched[k] = "A" THEN ObsA[CountIn(isched, "A", k)] ELSE ObsB[CountIn(isched, "B", k)]
(* independence, stated on the machine: each search has been asked exactly as often as the schedule says *)
Independent == ia = CountIn(isched, "A", Len(isched)) /\ ib = CountIn(isched, "B", Len(isched))

=============================================================================
