------------------------------- MODULE Syntax -------------------------------
(***************************************************************************)
(* Concrete syntax of Suiron source text (C19, C20; the input spaces of    *)
(* C18 and C21 are built from it).                                         *)
(*                                                                         *)
(* The AST is the term / goal / clause algebra of Terms.tla and SLD.tla.   *)
(* Print* is the CANONICAL printer: the text the documentation uses and    *)
(* that Display produces; canonical text must parse to the AST and print   *)
(* back unchanged.  Alt* are the other documented surface forms (infix     *)
(* comparison and arithmetic, facts and goals without parentheses); they   *)
(* must parse to the same AST as their canonical counterpart.              *)
(* Floats of this module carry their source text (kind "ftx"): only        *)
(* parse / print fidelity is at stake here.                                *)
(***************************************************************************)
EXTENDS SLD

FltTx(text) == T("ftx", text, 0, 0, <<>>, <<>>)

RECURSIVE PrintTerm(_), JoinTerms(_, _)
PrintTerm(t) ==
    CASE t.k = "atom" -> t.s
      [] t.k = "int"  -> ToString(t.n)
      [] t.k = "ftx"  -> t.s
      [] t.k = "var"  -> t.s
      [] t.k = "anon" -> "$_"
      [] t.k \in {"cx", "fn"} -> t.s \o "(" \o JoinTerms(t.a, ", ") \o ")"
      [] t.k = "list" -> "[" \o JoinTerms(t.a, ", ")
                             \o (IF t.t = <<>> THEN "" ELSE " | " \o PrintTerm(t.t[1])) \o "]"
JoinTerms(ts, sep) ==
    IF ts = <<>> THEN ""
    ELSE IF Len(ts) = 1 THEN PrintTerm(ts[1])
    ELSE PrintTerm(Head(ts)) \o sep \o JoinTerms(Tail(ts), sep)

RECURSIVE PrintGoal(_), JoinGoals(_, _)
PrintGoal(g) ==
    CASE g.g = "call" -> PrintTerm(g.t)
      [] g.g = "bip"  -> IF g.f = "unify" THEN PrintTerm(g.a[1]) \o " = " \o PrintTerm(g.a[2])
                         ELSE IF g.a = <<>> THEN g.f
                         ELSE g.f \o "(" \o JoinTerms(g.a, ", ") \o ")"
      [] g.g = "and"  -> JoinGoals(g.gs, ", ")
      [] g.g = "or"   -> JoinGoals(g.gs, "; ")
      [] g.g = "not"  -> "not(" \o PrintGoal(g.gs[1]) \o ")"
      [] g.g = "time" -> "time(" \o PrintGoal(g.gs[1]) \o ")"
JoinGoals(gs, sep) ==
    IF gs = <<>> THEN ""
    ELSE IF Len(gs) = 1 THEN PrintGoal(gs[1])
    ELSE PrintGoal(Head(gs)) \o sep \o JoinGoals(Tail(gs), sep)

PrintRule(cl) == IF cl.body = NoGoal THEN PrintTerm(cl.head) \o "."
                 ELSE PrintTerm(cl.head) \o " :- " \o PrintGoal(cl.body) \o "."

(* ---------------- which ASTs have canonical text ---------------- *)
(* simple goal: a call, a built-in, not(...) of a simple goal                  *)
RECURSIVE SimpleGoal(_)
SimpleGoal(g) == \/ g.g \in {"call", "bip"}
                 \/ (g.g \in {"not", "time"} /\ g.gs[1].g \in {"call", "bip"})
(* disjunctions of conjunctions of simple goals print unambiguously            *)
ConjOfSimple(g) == SimpleGoal(g) \/ (g.g = "and" /\ Len(g.gs) >= 2 /\ \A i \in DOMAIN g.gs : SimpleGoal(g.gs[i]))
CanonGoal(g) == ConjOfSimple(g) \/ (g.g = "or" /\ Len(g.gs) >= 2 /\ \A i \in DOMAIN g.gs : ConjOfSimple(g.gs[i]))

(* ---------------- the other documented surface forms ---------------- *)
InfixOf(f) == CASE f = "equal" -> "==" [] f = "less_than" -> "<" [] f = "less_than_or_equal" -> "<="
                [] f = "greater_than" -> ">" [] f = "greater_than_or_equal" -> ">=" [] f = "unify" -> "="
ArithOf(f) == CASE f = "add" -> "+" [] f = "subtract" -> "-" [] f = "multiply" -> "*" [] f = "divide" -> "/"
IsArith2(t) == t.k = "fn" /\ t.s \in {"add", "subtract", "multiply", "divide"} /\ Len(t.a) = 2
               /\ t.a[1].k # "fn" /\ t.a[2].k # "fn"
(* a term written with an infix arithmetic operator where it has one           *)
AltTerm(t) == IF IsArith2(t) THEN PrintTerm(t.a[1]) \o " " \o ArithOf(t.s) \o " " \o PrintTerm(t.a[2])
              ELSE PrintTerm(t)
HasAlt(g) ==
    \/ (g.g = "bip" /\ g.f \in CmpOps)
    \/ (g.g = "bip" /\ g.f = "unify" /\ (IsArith2(g.a[1]) \/ IsArith2(g.a[2])))
    \/ (g.g = "call" /\ g.t.a = <<>>)
AltGoal(g) ==
    IF g.g = "bip" /\ g.f \in CmpOps \cup {"unify"}
    THEN AltTerm(g.a[1]) \o " " \o InfixOf(g.f) \o " " \o AltTerm(g.a[2])
    ELSE IF g.g = "call" /\ g.t.a = <<>> THEN g.t.s          \* `q` for `q()`
    ELSE PrintGoal(g)

(* ---------------- grouping parentheses ---------------- *)
(* The documented way to write a goal tree that the precedence of `,` over `;` *)
(* does not give: an operand which is itself a conjunction or a disjunction is  *)
(* put in parentheses, to any depth.  (A conjunction as operand of a            *)
(* disjunction needs none; with full = TRUE it gets them all the same.)         *)
(* Display does not write parentheses, so these texts are parsed only: they     *)
(* must give exactly this tree.                                                 *)
RECURSIVE GroupGoal(_, _), JoinGroup(_, _, _, _)
GroupOperand(g, parent, full) ==
    IF g.g \in {"and", "or"} /\ (full \/ ~(parent = "or" /\ g.g = "and"))
    THEN "(" \o GroupGoal(g, full) \o ")" ELSE GroupGoal(g, full)
GroupGoal(g, full) ==
    CASE g.g = "and" -> JoinGroup(g.gs, ", ", "and", full)
      [] g.g = "or"  -> JoinGroup(g.gs, "; ", "or", full)
      [] OTHER -> PrintGoal(g)
JoinGroup(gs, sep, parent, full) ==
    IF gs = <<>> THEN ""
    ELSE IF Len(gs) = 1 THEN GroupOperand(gs[1], parent, full)
    ELSE GroupOperand(Head(gs), parent, full) \o sep \o JoinGroup(Tail(gs), sep, parent, full)

(* ---------------- placement contexts (C20) ---------------- *)
(* [entry, text]: the parser entry point and the text in which the term text    *)
(* tx is embedded; the harness knows where to find the sub-term in each         *)
Contexts(tx) ==
    << [ctx |-> "alone",        entry |-> "term",    text |-> tx],
       [ctx |-> "complex-arg",  entry |-> "complex", text |-> "f(" \o tx \o ", x)"],
       [ctx |-> "complex-last", entry |-> "complex", text |-> "f(x, " \o tx \o ")"],
       [ctx |-> "builtin-arg",  entry |-> "subgoal", text |-> "print(" \o tx \o ")"],
       [ctx |-> "list-first",   entry |-> "list",    text |-> "[" \o tx \o ", x]"],
       [ctx |-> "list-last",    entry |-> "list",    text |-> "[x, " \o tx \o "]"],
       [ctx |-> "infix-right",  entry |-> "subgoal", text |-> "$V = " \o tx],
       [ctx |-> "infix-left",   entry |-> "subgoal", text |-> tx \o " = $V"],
       [ctx |-> "cmp-right",    entry |-> "subgoal", text |-> "$V == " \o tx],
       [ctx |-> "query-arg",    entry |-> "query",   text |-> "q(" \o tx \o ", x)"],
       [ctx |-> "rule-head",    entry |-> "rule",    text |-> "h(" \o tx \o ")."],
       [ctx |-> "rule-body",    entry |-> "rule",    text |-> "h :- g(" \o tx \o ")."],
       (* the same places written without the optional blank after a comma, in the middle, last *)
       (* in a built-in / query / function, and one level down                                   *)
       [ctx |-> "complex-arg-compact",  entry |-> "complex", text |-> "f(" \o tx \o ",x)"],
       [ctx |-> "complex-last-compact", entry |-> "complex", text |-> "f(x," \o tx \o ")"],
       [ctx |-> "complex-mid",          entry |-> "complex", text |-> "f(x, " \o tx \o ", y)"],
       [ctx |-> "complex-mid-compact",  entry |-> "complex", text |-> "f(x," \o tx \o ",y)"],
       [ctx |-> "list-first-compact",   entry |-> "list",    text |-> "[" \o tx \o ",x]"],
       [ctx |-> "list-last-compact",    entry |-> "list",    text |-> "[x," \o tx \o "]"],
       [ctx |-> "list-mid",             entry |-> "list",    text |-> "[x, " \o tx \o ", y]"],
       [ctx |-> "list-before-tail",     entry |-> "list",    text |-> "[x, " \o tx \o " | $T]"],
       [ctx |-> "builtin-last",         entry |-> "subgoal", text |-> "print(x, " \o tx \o ")"],
       [ctx |-> "builtin-last-compact", entry |-> "subgoal", text |-> "print(x," \o tx \o ")"],
       [ctx |-> "query-last",           entry |-> "query",   text |-> "q(x, " \o tx \o ")"],
       [ctx |-> "query-last-compact",   entry |-> "query",   text |-> "q(x," \o tx \o ")"],
       [ctx |-> "function-arg",         entry |-> "term",    text |-> "join(x, " \o tx \o ")"],
       [ctx |-> "function-arg-compact", entry |-> "term",    text |-> "join(x," \o tx \o ")"],
       [ctx |-> "nested-arg",           entry |-> "complex", text |-> "f(g(" \o tx \o "), x)"],
       [ctx |-> "nested-last-compact",  entry |-> "complex", text |-> "f(x, g(y," \o tx \o "))"],
       (* next to a float, to an atom with a period and a blank, to a quoted atom with a comma *)
       [ctx |-> "after-float",          entry |-> "complex", text |-> "f(1.5, " \o tx \o ")"],
       [ctx |-> "before-float",         entry |-> "complex", text |-> "f(" \o tx \o ", 0.25)"],
       [ctx |-> "after-dotted-atom",    entry |-> "complex", text |-> "f(Mr. Smith, " \o tx \o ")"],
       [ctx |-> "after-quoted",         entry |-> "complex", text |-> "f(\"a, b\", " \o tx \o ")"],
       [ctx |-> "list-after-float",     entry |-> "list",    text |-> "[1.5, " \o tx \o "]"],
       [ctx |-> "builtin-after-float",  entry |-> "subgoal", text |-> "print(1.5, " \o tx \o ")"],
       [ctx |-> "rule-head-last-compact", entry |-> "rule",  text |-> "h(x," \o tx \o ")."],
       [ctx |-> "rule-body-last-compact", entry |-> "rule",  text |-> "h :- g(x," \o tx \o ")."] >>

=============================================================================
