--------------------------- MODULE MC_Interleave ---------------------------
(***************************************************************************)
(* C10 (two live searches): every interleaving of the requests of two      *)
(* queries over a knowledge base with rules whose bodies are exhausted on  *)
(* re-entry, facts with variables of their own, and goals with several     *)
(* answers.  Quick: pairs in which one search goes through a rule body     *)
(* that runs out (pa) or keeps clause variables alive across its answers   *)
(* (pb); thorough: all pairs.                                              *)
(***************************************************************************)
EXTENDS Interleave, Json, FiniteSets

CONSTANTS Tier, Slice

Thorough == Tier = "thorough"
V(n) == Var(0, n)
a == Atom("a") b == Atom("b") c == Atom("c")
X == V("$X") Y == V("$Y") Z == V("$Z") W == V("$W")
AtomCodesDef == [s \in {"a", "b", "c"} |-> CASE s = "a" -> <<97>> [] s = "b" -> <<98>> [] s = "c" -> <<99>>]
FmtPiecesDef == [s \in {} |-> <<>>]

KB == << Fact(Cx("q", <<a>>)), Fact(Cx("q", <<b>>)), Fact(Cx("r", <<b>>)), Fact(Cx("r", <<c>>)),
         Clause(Cx("p", <<X>>), AndG(<<Call(Cx("q", <<X>>)), Call(Cx("r", <<Y>>))>>)),
         Clause(Cx("n", <<X>>), AndG(<<Call(Cx("r", <<X>>)), NotG(Call(Cx("q", <<X>>)))>>)),
         Clause(Cx("pa", <<X>>), Call(Cx("qa", <<X>>))), Fact(Cx("pa", <<Atom("stop")>>)), Fact(Cx("qa", <<Atom("one")>>)),
         Clause(Cx("pb", <<X, Y>>), AndG(<<Call(Cx("gen", <<X>>)), Call(Cx("chk", <<X, Y>>)), UnifyG(Y, Atom("done"))>>)),
         Fact(Cx("gen", <<IntT(1)>>)), Fact(Cx("gen", <<IntT(2)>>)), Fact(Cx("chk", <<V("$A"), V("$B")>>)),
         Clause(Cx("pc", <<X, Y>>), AndG(<<Call(Cx("q", <<X>>)), Call(Cx("chk", <<Y, W>>)), Call(Cx("r", <<Y>>))>>)),
         (* predicates without any variable, with cuts: between the requests of such queries a THIRD query may be built *)
         (* (nothing of a search without variables can collide with the restarted id counter)                          *)
         Fact(Cx("r0", <<>>)), Fact(Cx("r0", <<>>)), Fact(Cx("a0", <<>>)), Fact(Cx("c0", <<>>)), Fact(Cx("c0", <<>>)), Fact(Cx("b0", <<>>)),
         Clause(Cx("pz", <<>>), AndG(<<CutG, Call(Cx("r0", <<>>))>>)),
         Clause(Cx("pw", <<>>), AndG(<<AndG(<<Call(Cx("a0", <<>>)), Call(Cx("c0", <<>>))>>), CutG, Call(Cx("b0", <<>>))>>)), Fact(Cx("pw", <<>>)),
         Clause(Cx("pv", <<>>), OrG(<<Call(Cx("c0", <<>>)), AndG(<<CutG, Call(Cx("r0", <<>>))>>)>>)) >>
Prop == {Cx("pz", <<>>), Cx("pw", <<>>), Cx("pv", <<>>), Cx("r0", <<>>)}
Special == {Cx("pa", <<Z>>), Cx("pb", <<Z, W>>), Cx("pc", <<Z, W>>)}
Others  == {Cx("p", <<Z>>), Cx("n", <<Z>>), Cx("q", <<Z>>), Cx("pa", <<Atom("stop")>>)}
Pairs == {<<x, y>> : x \in Special, y \in Special \cup Others} \cup {<<x, y>> : x \in Others, y \in Special}
         \cup (IF Thorough THEN {<<x, y>> : x \in Others, y \in Others} ELSE {<<Cx("p", <<Z>>), Cx("p", <<Z>>)>>})
         \cup {<<x, y>> : x \in Prop, y \in Prop}

Init == \E pr \in Pairs : IInit(KB, pr[1], pr[2])
Next == INext
Spec == Init /\ [][Next]_ivars

(* ------------------------------ emission -------------------------------- *)
RECURSIVE PackGoal(_), PackGoals(_)
PackGoal(g) == CASE g.g = "call" -> [g |-> "call", t |-> Pack(g.t)]
                 [] g.g = "bip"  -> [g |-> "bip", f |-> g.f, a |-> PackSeq(g.a)]
                 [] g.g = "nil"  -> [g |-> "nil"]
                 [] OTHER -> [g |-> g.g, gs |-> PackGoals(g.gs)]
PackGoals(gs) == IF gs = <<>> THEN <<>> ELSE <<PackGoal(Head(gs))>> \o PackGoals(Tail(gs))
RECURSIVE PackProg(_)
PackProg(pg) == IF pg = <<>> THEN <<>>
                ELSE <<[head |-> Pack(Head(pg).head), body |-> PackGoal(Head(pg).body)]>> \o PackProg(Tail(pg))
RECURSIVE PackSegs(_)
PackSegs(ss) == IF ss = <<>> THEN <<>>
                ELSE <<[out |-> Head(ss).out, some |-> Head(ss).some, ans |-> PackSeq(Head(ss).ans)]>> \o PackSegs(Tail(ss))
Case == [ t |-> "interleave", slice |-> Slice, prog |-> PackProg(iprog), qa |-> Pack(iqa), qb |-> Pack(iqb),
          rebuild |-> (iqa \in Prop /\ iqb \in Prop),      \* a third (ground) query is built before every request
          schedule |-> isched, expa |-> PackSegs(ObsA), expb |-> PackSegs(ObsB), path |-> <<"AskA", "AskB">> ]
Emit == IDone => PrintT(<<"CASE", ToJson(Case)>>)

=============================================================================
