------------------------------ MODULE MC_Unify ------------------------------
(***************************************************************************)
(* Bounded-exhaustive model of the unifier (properties C06 C07 C08 C09,    *)
(* and C13 when function terms are in the universe).                        *)
(*                                                                         *)
(* Initial states: every session  <<a,b>>  (a, b from TermU, both orders)  *)
(* x every acyclic prior substitution of PriorU, plus the multi-step       *)
(* sessions of SessionU.  TLC runs the Unify machine on each, checks the   *)
(* invariants below in every state, and prints one CASE line per finished  *)
(* behaviour; the harness replays each CASE against Unifiable::unify.      *)
(***************************************************************************)
EXTENDS Unify, Json

CONSTANTS Tier,        \* "quick" | "thorough"
          Slice        \* "plain" | "fn" | "laws"

VARIABLE u

X == Var(1, "$X")
Y == Var(2, "$Y")
Z == Var(3, "$Z")
a == Atom("a")
b == Atom("b")
NVars == 3

Thorough == Tier = "thorough"

(* ------------------------------ term universe --------------------------- *)
Consts  == {a, b, IntT(1), Flt(1, 0), Flt(3, -1),       \* a b 1 1.0 1.5
            Flt(1, -60), Flt(3, -61)}                    \* two different floats that are very close: 2^-60 and 1.5 * 2^-60
Base    == Consts \cup {X, Y, Z, Anon, EmptyList}
Small   == {a, X, Y, Anon}
Small2  == IF Thorough THEN {a, b, X, Y, Anon} ELSE {a, X, Anon}
Tails   == IF Thorough THEN {Y, Z, Anon} ELSE {Y, Anon}

Depth1 ==
       {Cx("f", <<s>>) : s \in Small \cup {b, IntT(1), EmptyList}}
  \cup {Cx("g", <<s1, s2>>) : s1 \in Small2, s2 \in Small2}
  \cup {Cx("h", <<>>)}
  \cup {Lst(<<s>>) : s \in Small \cup {b, Z}}
  \cup {Lst(<<s1, s2>>) : s1 \in Small2, s2 \in Small2}
  \cup {LstT(<<s>>, tl) : s \in Small, tl \in Tails}
  \cup {LstT(<<s1, s2>>, tl) : s1 \in {a, X}, s2 \in {a, X}, tl \in {Z, Anon}}

Depth2 ==
  { Cx("f", <<Cx("f", <<X>>)>>), Cx("f", <<Lst(<<X>>)>>), Cx("f", <<LstT(<<a>>, Y)>>),
    Cx("g", <<X, Cx("f", <<Y>>)>>), Cx("g", <<Cx("f", <<a>>), X>>), Cx("g", <<X, X>>),
    Lst(<<Cx("f", <<X>>)>>), Lst(<<Lst(<<a>>)>>), Lst(<<EmptyList>>),
    Lst(<<a, EmptyList>>), Lst(<<a, Lst(<<b>>)>>), Lst(<<Lst(<<X>>), Y>>),
    LstT(<<Lst(<<X>>)>>, Y), LstT(<<EmptyList>>, Z), Lst(<<a, b, a>>),
    Lst(<<X, Y, Z>>), LstT(<<a, b>>, X), Lst(<<Cx("g", <<X, Anon>>), Y>>),
    Cx("f", <<Cx("g", <<Anon, a>>)>>), Lst(<<a, Lst(<<b, a>>)>>) }

TermPlain == Base \cup Depth1 \cup (IF Thorough THEN Depth2 ELSE
                {Cx("f", <<Cx("f", <<X>>)>>), Lst(<<EmptyList>>), Lst(<<a, EmptyList>>),
                 Lst(<<a, Lst(<<b>>)>>), LstT(<<Lst(<<X>>)>>, Y), Cx("g", <<X, X>>)})

(* ---- function terms (C13) ---- *)
FnArgs == IF Thorough
          THEN {<<IntT(1), IntT(2)>>, <<IntT(7), IntT(2)>>, <<X, IntT(2)>>, <<Flt(3, -1), IntT(2)>>,
                <<IntT(6), IntT(3), IntT(2)>>, <<IntT(5)>>, <<IntT(-7), IntT(2)>>, <<Y, X>>}
          ELSE {<<IntT(7), IntT(2)>>, <<X, IntT(2)>>, <<Flt(3, -1), IntT(2)>>}
FnTerms == {Fn(op, args) : op \in {"add", "subtract", "multiply", "divide"}, args \in FnArgs}
      \cup {Fn("join", <<a, b>>), Fn("join", <<a, Atom(","), b>>), Fn("join", <<X, b>>),
            Fn("join", <<Lst(<<a, b>>), Atom("!")>>), Fn("join", <<IntT(1), a>>),
            Fn("join", <<Lst(<<X, b>>), a>>), Fn("join", <<LstT(<<b>>, X)>>),
            (* list elements and arguments that are variables bound to punctuation / words *)
            Fn("join", <<Lst(<<a, X, b>>)>>), Fn("join", <<Lst(<<a, X>>), Y>>), Fn("join", <<a, Y, b, X>>)}
FnOthers == {X, Y, Z, Anon, a, b, Atom("a, b"), Atom("a? b"), Atom("a,!"), Atom("a a b?"), Atom("a. b."), Atom("a b"), Atom("a, b"), Atom("a b!"), Atom("1 a"), Atom("a b a"), Atom("b a?"),
             IntT(1), IntT(2), IntT(3), IntT(5), IntT(9), IntT(14), IntT(-1), Flt(7, -1), Flt(3, 0),
             Flt(3, -2), IntT(36), IntT(1), Cx("f", <<a>>), Lst(<<a>>), EmptyList}
           \cup FnTerms

NearFns  == {Fn("add", <<Flt(1, 52), Flt(1, 0)>>), Fn("subtract", <<Flt(1, 52), Flt(1, 0)>>), Fn("add", <<Flt(1, 52), Flt(0, 0)>>),
             Fn("multiply", <<FltA(1, 52, 1), Flt(1, 0)>>), Fn("add", <<Flt(1, 51), Flt(1, 51), IntT(1)>>)}
NearVals == {Flt(1, 52), FltA(1, 52, 1), FltA(1, 52, -1), IntE(1, 52), IntA(1, 52, 1)}
P(x, y, z) == <<x, y, z>>
(* ---- arithmetic (C12): argument lists of 1-4 exact numbers ---- *)
NumsT == {IntT(0), IntT(1), IntT(-3), IntT(7), IntT(2), IntE(1, 62), IntE(-1, 63), IntE(1, 40),
          Flt(0, 0), Flt(1, -1), Flt(3, -1), Flt(-5, -2), Flt(1, 40), Flt(1, -30)}
NumsQ == {IntT(0), IntT(-3), IntT(7), IntT(2), IntE(1, 62), Flt(0, 0), Flt(3, -1), Flt(-5, -2)}
Nums4 == {IntT(7), IntT(-3), IntT(2), Flt(1, -1), IntT(0)}
ArOps == {"add", "subtract", "multiply", "divide"}
OddBig == {IntA(1, 53, 1), IntA(1, 53, -1), IntA(1, 54, 1), IntA(1, 62, -1), IntA(-1, 53, -1), IntE(1, 53)}
ArithInits ==
    LET N == IF Thorough THEN NumsT ELSE NumsQ IN
         {InitU(<<<<Z, Fn(op, <<n1>>)>>>>, P(NoT, NoT, NoT)) : op \in ArOps, n1 \in NumsT}
    \cup {InitU(<<<<Z, Fn(op, <<n1, n2>>)>>>>, P(NoT, NoT, NoT)) : op \in ArOps, n1 \in NumsT, n2 \in NumsT}
    \cup {InitU(<<<<Z, Fn(op, <<n1, n2, n3>>)>>>>, P(NoT, NoT, NoT)) : op \in ArOps, n1 \in N, n2 \in N, n3 \in N}
    \cup {InitU(<<<<Z, Fn(op, <<n1, n2, n3, n4>>)>>>>, P(NoT, NoT, NoT)) :
              op \in ArOps, n1 \in Nums4, n2 \in Nums4, n3 \in (IF Thorough THEN Nums4 ELSE {IntT(2), Flt(1, -1)}), n4 \in Nums4}
    \cup {InitU(<<<<Z, Fn(op, <<X, Y>>)>>>>, P(n1, n2, NoT)) : op \in ArOps, n1 \in N, n2 \in N}          \* bound variables
    \cup {InitU(<<<<Fn(op, <<X, n2>>), Z>>>>, P(Y, n1, NoT)) : op \in ArOps, n1 \in N, n2 \in N}          \* chain X -> Y -> n1
    \cup {InitU(<<<<n3, Fn(op, <<n1, n2>>)>>>>, P(NoT, NoT, NoT)) : op \in ArOps, n1 \in NumsQ, n2 \in NumsQ, n3 \in NumsQ}
    (* integers which are no f64: the neighbours of 2^53, 2^54, 2^62, with 0 / 1 / -1, with each other and with their bases *)
    \cup {InitU(<<<<Z, Fn(op, <<n1, n2>>)>>>>, P(NoT, NoT, NoT)) : op \in {"add", "subtract", "multiply"}, n1 \in OddBig \cup {IntT(1), IntT(-1)}, n2 \in OddBig \cup {IntT(0), IntT(1), IntT(-1)}}
    \cup {InitU(<<<<Z, Fn(op, <<X, n2, IntT(1)>>)>>>>, P(Y, n1, NoT)) : op \in {"add", "subtract", "multiply"}, n1 \in OddBig, n2 \in {IntT(1), IntT(-1), IntT(0)}}

(* ---- the small universe of the brute-force oracle ("laws") ---- *)
LawTerms == {a, b, IntT(1), X, Y, Anon, EmptyList,
             Cx("f", <<a>>), Cx("f", <<X>>), Cx("f", <<Y>>), Cx("f", <<Anon>>),
             Cx("g", <<X, Y>>), Cx("g", <<a, X>>), Cx("g", <<X, X>>), Cx("g", <<Y, b>>),
             Lst(<<a>>), Lst(<<X>>), Lst(<<a, b>>), Lst(<<X, Y>>), Lst(<<Y, a>>),
             LstT(<<a>>, Y), LstT(<<X>>, Y), LstT(<<X>>, Anon), LstT(<<a, b>>, X),
             Lst(<<EmptyList>>), Lst(<<Lst(<<a>>)>>), Lst(<<a, EmptyList>>),
             Lst(<<Cx("f", <<X>>)>>)}
Ground == {a, b, IntT(1), Cx("f", <<a>>), Cx("f", <<b>>), EmptyList, Lst(<<a>>), Lst(<<b>>),
           Lst(<<a, b>>), Lst(<<EmptyList>>), Lst(<<Lst(<<a>>)>>), Lst(<<a, EmptyList>>),
           Cx("g", <<a, b>>), Cx("g", <<a, a>>), Cx("f", <<Cx("f", <<a>>)>>)}

(* ------------------------------ priors ---------------------------------- *)
PriorQuick ==
  { P(NoT, NoT, NoT), P(a, NoT, NoT), P(Y, NoT, NoT), P(NoT, X, NoT),
    P(Y, a, NoT), P(NoT, NoT, Lst(<<a>>)), P(NoT, LstT(<<b>>, Z), NoT),
    P(Cx("f", <<Y>>), NoT, NoT),
    (* two variables already bound to compound terms which are not identical but unify *)
    P(Cx("f", <<Z>>), Cx("f", <<b>>), NoT), P(LstT(<<a>>, Z), Lst(<<a, b>>), NoT),
    (* ... one of them with $_ inside: the values differ only where the $_ is *)
    P(Cx("g", <<Anon, b>>), Cx("g", <<a, b>>), NoT) }
PriorMore ==
  { P(Y, Z, NoT), P(Y, Z, a), P(Z, Z, NoT), P(NoT, Z, EmptyList),
    P(Lst(<<Y>>), NoT, NoT), P(LstT(<<a>>, Y), NoT, NoT), P(LstT(<<a>>, Y), Lst(<<b>>), NoT),
    P(NoT, EmptyList, NoT), P(b, a, NoT), P(IntT(1), NoT, NoT), P(Flt(1, 0), NoT, NoT),
    P(Cx("g", <<Y, Z>>), NoT, a), P(NoT, Cx("f", <<Z>>), Cx("f", <<a>>)),
    P(Lst(<<Y, Z>>), a, NoT), P(NoT, NoT, LstT(<<X>>, Y)), P(Z, NoT, LstT(<<a>>, Y)),
    P(Cx("f", <<Anon>>), NoT, NoT), P(Lst(<<a, Anon>>), NoT, NoT), P(Y, Lst(<<Z>>), b),
    P(Z, Cx("g", <<a, Anon>>), Cx("g", <<Anon, b>>)), P(Cx("g", <<Z, a>>), Cx("g", <<b, Z>>), NoT),
    P(Lst(<<Z, b>>), LstT(<<a>>, Z), NoT), P(Lst(<<a, Anon>>), Lst(<<a, b>>), NoT), P(Cx("f", <<Cx("f", <<Anon>>)>>), NoT, Cx("f", <<Cx("f", <<a>>)>>)) }
PriorPlain == IF Thorough THEN PriorQuick \cup PriorMore ELSE PriorQuick
PriorFn    == { P(NoT, NoT, NoT), P(IntT(5), NoT, NoT), P(Y, IntT(3), NoT), P(a, NoT, NoT),
                P(Lst(<<a, Atom("?")>>), NoT, NoT),
                P(NoT, IntT(3), NoT), P(Flt(3, -1), NoT, NoT),
                P(Atom(","), Atom("!"), NoT), P(Atom("?"), a, NoT), P(Y, Atom("."), NoT) }
PriorLaws  == { P(NoT, NoT, NoT), P(a, NoT, NoT), P(Y, NoT, NoT), P(NoT, X, NoT),
                P(Cx("f", <<Y>>), NoT, NoT), P(NoT, Lst(<<a>>), NoT), P(LstT(<<a>>, Y), NoT, NoT) }

(* ------------------------------ sessions (C08, C09) --------------------- *)
SessTerms == {X, Y, Z, Anon, a, b, Cx("f", <<X>>), Cx("f", <<Y>>), Lst(<<X>>), LstT(<<a>>, Y),
              Cx("g", <<X, Y>>), Cx("g", <<Y, X>>)}
SessPairs == {<<s, t>> : s \in {X, Y, Z, Anon}, t \in SessTerms} \cup
             {<<t, s>> : s \in {X, Y, Z}, t \in SessTerms} \cup
             {<<Cx("g", <<X, Y>>), Cx("g", <<Y, X>>)>>, <<Cx("g", <<X, Y>>), Cx("g", <<Anon, a>>)>>,
              <<Lst(<<X, Y>>), Lst(<<Y, X>>)>>, <<LstT(<<X>>, Y), Lst(<<a, b>>)>>}
SessPairsQ == {p \in SessPairs : p[1] \in {X, Y, Anon} /\ p[2] \in {X, Y, Z, Anon, a, b, Cx("f", <<X>>)}}
              \cup {<<a, X>>, <<Y, X>>, <<Z, Y>>, <<Cx("g", <<X, Y>>), Cx("g", <<Y, X>>)>>}
SessU == IF Thorough
         THEN {<<p1, p2>> : p1 \in SessPairs, p2 \in SessPairs} \cup
              {<<p1, p2, p3>> : p1 \in SessPairsQ, p2 \in SessPairsQ, p3 \in SessPairsQ}
         ELSE {<<p1, p2>> : p1 \in SessPairsQ, p2 \in SessPairsQ} \cup
              {<<p1, p2, <<X, b>>>> : p1 \in SessPairsQ, p2 \in SessPairsQ}

(* ------------------------------ the model ------------------------------- *)
Inits ==
    CASE Slice = "plain" ->
           {InitU(<<<<s, t>>>>, p) : s \in TermPlain, t \in TermPlain, p \in PriorPlain}
      [] Slice = "sess" ->
           {InitU(ss, P(NoT, NoT, NoT)) : ss \in SessU}
      [] Slice = "fn" ->
           {InitU(<<<<s, t>>>>, p) : s \in FnTerms, t \in FnOthers, p \in PriorFn} \cup
           {InitU(<<<<t, s>>>>, p) : s \in FnTerms, t \in FnOthers, p \in PriorFn} \cup
           {InitU(<<<<Cx("f", <<s>>), Cx("f", <<t>>)>>>>, P(NoT, NoT, NoT)) : s \in FnTerms, t \in FnOthers} \cup
           {InitU(<<<<Lst(<<t, a>>), Lst(<<s, a>>)>>>>, P(NoT, NoT, NoT)) : s \in FnTerms, t \in FnOthers} \cup
           (* a float value next to the other operand: 2^52 + 1 and 2^52 - 1 (exact f64 sums) against 2^52, against themselves, *)
           (* against each other, against a variable bound to either; function against function                                  *)
           {InitU(<<<<s, t>>>>, p) : s \in NearFns, t \in NearVals \cup NearFns \cup {X}, p \in {P(NoT, NoT, NoT), P(Flt(1, 52), NoT, NoT), P(FltA(1, 52, 1), NoT, NoT)}} \cup
           {InitU(<<<<t, s>>>>, P(NoT, NoT, NoT)) : s \in NearFns, t \in NearVals}
      [] Slice = "arith" -> ArithInits
      [] Slice = "laws" ->
           {InitU(<<<<s, t>>>>, p) : s \in LawTerms, t \in LawTerms, p \in PriorLaws}

Init == u \in Inits

Guards(st) == << G_Finish(st), G_Same(st), G_Anon(st), G_FnL(st), G_FnR(st),
                 G_DerefL(st), G_DerefR(st), G_BindL(st), G_BindR(st),
                 G_Const(st), G_Cx(st), G_List(st), G_Clash(st) >>
First(st) == LET g == Guards(st) IN
             IF \E k \in DOMAIN g : g[k]
             THEN CHOOSE k \in DOMAIN g : g[k] /\ \A j \in 1..(k - 1) : ~g[j]
             ELSE 0

Finish        == First(u) = 1  /\ u' = D_Finish(u)
Same          == First(u) = 2  /\ u' = D_Same(u)
AnonEither    == First(u) = 3  /\ u' = D_Anon(u)
EvalFunctionL == First(u) = 4  /\ u' = D_FnL(u)
EvalFunctionR == First(u) = 5  /\ u' = D_FnR(u)
DerefLeft     == First(u) = 6  /\ u' = D_DerefL(u)
DerefRight    == First(u) = 7  /\ u' = D_DerefR(u)
BindVarL      == First(u) = 8  /\ u' = D_BindL(u)
BindVarR      == First(u) = 9  /\ u' = D_BindR(u)
ConstConst    == First(u) = 10 /\ u' = D_Const(u)
Decompose     == First(u) = 11 /\ u' = D_Cx(u)
ListStep      == First(u) = 12 /\ u' = D_List(u)
Clash         == First(u) = 13 /\ u' = D_Clash(u)

Next == \/ Finish \/ Same \/ AnonEither \/ EvalFunctionL \/ EvalFunctionR
        \/ DerefLeft \/ DerefRight \/ BindVarL \/ BindVarR
        \/ ConstConst \/ Decompose \/ ListStep \/ Clash

Spec == Init /\ [][Next]_u

(* ------------------------------ properties ------------------------------ *)
(* "identical when fully resolved": $_ stands for anything; a function term  *)
(* stands for its value                                                       *)
RECURSIVE EqMod(_, _, _), EqModSeq(_, _, _)
EqMod(x0, y0, bd) ==
    LET x == IF x0.k = "fn" THEN EvalFn(x0, bd).v ELSE x0
        y == IF y0.k = "fn" THEN EvalFn(y0, bd).v ELSE y0 IN
    IF x.k = "anon" \/ y.k = "anon" THEN TRUE
    ELSE IF x.k # y.k THEN FALSE
    ELSE CASE x.k = "cx" -> x.s = y.s /\ Len(x.a) = Len(y.a) /\ EqModSeq(x.a, y.a, bd)
           [] x.k = "list" ->
                IF x.a # <<>> /\ y.a # <<>>
                THEN EqMod(x.a[1], y.a[1], bd) /\ EqMod(RestL(x), RestL(y), bd)
                ELSE IF NormL(x) # x \/ NormL(y) # y THEN EqMod(NormL(x), NormL(y), bd)
                ELSE x.a = <<>> /\ y.a = <<>>
           [] OTHER -> NormNum(x) = NormNum(y)
EqModSeq(s1, s2, bd) ==
    IF s1 = <<>> THEN TRUE
    ELSE EqMod(Head(s1), Head(s2), bd) /\ EqModSeq(Tail(s1), Tail(s2), bd)

Final == u.status # "run"
Claimed == u.status \in {"ok", "fail"}

(* C08 *)
AcyclicInv == Acyclic(u.bind)
(* C09 *)
NoAnonBinding == \A i \in DOMAIN u.bind : u.bind[i].k # "anon"
(* C06: earlier bindings are kept *)
KeepsPrior == \A i \in DOMAIN u.prior : u.prior[i] # NoT => u.bind[i] = u.prior[i]
(* C06: on success both terms are identical when fully resolved *)
Sound == u.status = "ok" =>
            \A i \in DOMAIN u.pairs :
               EqMod(Resolve(u.pairs[i][1], u.bind), Resolve(u.pairs[i][2], u.bind), u.bind)
(* failure leaves the bindings of the last success *)
FailKeeps == u.status = "fail" => u.bind = u.commit

Swap(pairs) == [i \in DOMAIN pairs |-> <<pairs[i][2], pairs[i][1]>>]
(* C07 *)
Symmetric == Claimed =>
    LET r == RunU(InitU(Swap(u.pairs), u.prior)) IN
    /\ r.status = u.status
    /\ r.done = u.done
    /\ u.status = "ok" => Answer(NVars, r.bind) = Answer(NVars, u.bind)

(* ---- brute-force oracle over ground substitutions (slice "laws") ---- *)
GSubsts == {<<gx, gy, gz>> : gx \in Ground, gy \in Ground, gz \in {a}}
Extends(th, prior) == \A i \in DOMAIN prior :
                         prior[i] # NoT => EqMod(Resolve(prior[i], th), th[i], th)
Unifies(th, pairs) == \A i \in DOMAIN pairs :
                         EqMod(Resolve(pairs[i][1], th), Resolve(pairs[i][2], th), th)
GroundUnifiers == {th \in GSubsts : Extends(th, u.prior) /\ Unifies(th, u.pairs)}
LawsOn == Slice = "laws"
(* C06: fails only if there is no unifier *)
Complete == (LawsOn /\ u.status = "fail") => GroundUnifiers = {}
(* C06: binds no more than a most general unifier: every unifier factors through *)
MostGeneral == (LawsOn /\ u.status = "ok") =>
    \A th \in GroundUnifiers :
        \A i \in 1..NVars : EqMod(Resolve(Resolve(Var(i, ""), u.bind), th), th[i], th)

(* Function terms are only claimed where their value is defined by the bindings  *)
(* the unification starts from (then it is the same whenever it is evaluated).    *)
RECURSIVE FnSubs(_), FnSubsSeq(_)
FnSubs(t) == CASE t.k = "fn" -> {t}
               [] t.k = "cx" -> FnSubsSeq(t.a)
               [] t.k = "list" -> FnSubsSeq(t.a)
               [] OTHER -> {}
FnSubsSeq(s) == IF s = <<>> THEN {} ELSE FnSubs(Head(s)) \cup FnSubsSeq(Tail(s))
FnDefined == \A i \in DOMAIN u.pairs : \A f \in FnSubs(u.pairs[i][1]) \cup FnSubs(u.pairs[i][2]) :
                 EvalFn(f, u.prior).st = "ok"

(* ------------------------------ emission -------------------------------- *)
RECURSIVE PackPairs(_)
PackPairs(ps) == IF ps = <<>> THEN <<>>
                 ELSE <<[l |-> Pack(Head(ps)[1]), r |-> Pack(Head(ps)[2])]>> \o PackPairs(Tail(ps))
Case == [ t      |-> "unify",
          slice  |-> Slice,
          pairs  |-> PackPairs(u.pairs),
          prior  |-> PackSeq(u.prior),
          status |-> IF Claimed /\ ~FnDefined THEN "out" ELSE u.status,
          done   |-> u.done,
          res    |-> IF u.status = "ok" THEN PackSeq(Answer(NVars, u.bind))
                     ELSE PackSeq(Answer(NVars, u.commit)),
          path   |-> u.path ]
Emit == Final => PrintT(<<"CASE", ToJson(Case)>>)

=============================================================================
