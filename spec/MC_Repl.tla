----------------------------- MODULE MC_Repl -----------------------------
(***************************************************************************)
(* X03: sessions of 1-3 (thorough 4) lines typed at the prompt of the      *)
(* `query` program over the knowledge base of the session histories:       *)
(* queries with several answers, with none, ground ones, one that is only  *)
(* a functor, one for a predicate without clauses, one over a rule with    *)
(* not(...), one whose search prints, and lines which are not queries.     *)
(* The harness writes the program to a file, runs the real binary with the *)
(* typed lines on its standard input and compares its output with the      *)
(* transcript.                                                             *)
(***************************************************************************)
EXTENDS Repl, Json, FiniteSets

CONSTANTS Tier, Slice

Thorough == Tier = "thorough"
V(n) == Var(0, n)
a == Atom("a") b == Atom("b") c == Atom("c")
Z == V("$Z") X == V("$X") Y == V("$Y")
AtomCodesDef == [s \in {"a", "b", "c"} |-> CASE s = "a" -> <<97>> [] s = "b" -> <<98>> [] s = "c" -> <<99>>]
FmtPiecesDef == [s \in {"<%s>"} |-> <<"<", ">">>]

KB == << Fact(Cx("q", <<a>>)), Fact(Cx("q", <<b>>)), Fact(Cx("r", <<b>>)), Fact(Cx("r", <<c>>)),
         Clause(Cx("p", <<X>>), AndG(<<Call(Cx("q", <<X>>)), Call(Cx("r", <<Y>>))>>)),
         Clause(Cx("s", <<X, Y>>), AndG(<<Call(Cx("q", <<X>>)), Call(Cx("r", <<Y>>)), Call(Cx("q", <<X>>))>>)),
         Clause(Cx("n", <<X>>), AndG(<<Call(Cx("r", <<X>>)), NotG(Call(Cx("q", <<X>>)))>>)),
         Clause(Cx("go", <<>>), AndG(<<Call(Cx("q", <<X>>)), Call(Cx("r", <<X>>))>>)),
         Clause(Cx("show", <<X>>), AndG(<<Call(Cx("q", <<X>>)), Bip("print", <<Atom("<%s>"), X>>)>>)) >>

Qs == {Cx("q", <<Z>>), Cx("p", <<Z>>), Cx("s", <<Z, Y>>), Cx("n", <<Z>>), Cx("q", <<c>>), Cx("zz", <<Z>>), Cx("q", <<a>>), Cx("go", <<>>),
       Cx("show", <<Z>>)}
Lines == {[kind |-> "query", q |-> qq, text |-> ""] : qq \in Qs} \cup {[kind |-> "junk", q |-> NoQ, text |-> tx] : tx \in {"q(", "$X", "q(a))"}}
LinesS == {l \in Lines : l.kind = "junk" \/ l.q \in {Cx("q", <<Z>>), Cx("s", <<Z, Y>>), Cx("zz", <<Z>>), Cx("go", <<>>), Cx("show", <<Z>>)}}
Sessions ==   {<<l1>> : l1 \in Lines} \cup {<<l1, l2>> : l1 \in Lines, l2 \in Lines}
         \cup {<<l1, l2, l3>> : l1 \in LinesS, l2 \in LinesS, l3 \in (IF Thorough THEN Lines ELSE {l \in LinesS : l.kind = "query"})}
         \cup {<<>>}

Init == \E ss \in Sessions : RInit(KB, ss)
Next == RNext
Spec == Init /\ [][Next]_rvars
Done == rmode = "done"

(* ------------------------------ emission -------------------------------- *)
RECURSIVE PackGoal(_), PackGoals(_)
PackGoal(g) == CASE g.g = "call" -> [g |-> "call", t |-> Pack(g.t)]
                 [] g.g = "bip"  -> [g |-> "bip", f |-> g.f, a |-> PackSeq(g.a)]
                 [] g.g = "nil"  -> [g |-> "nil"]
                 [] OTHER -> [g |-> g.g, gs |-> PackGoals(g.gs)]
PackGoals(gs) == IF gs = <<>> THEN <<>> ELSE <<PackGoal(Head(gs))>> \o PackGoals(Tail(gs))
RECURSIVE PackProg(_)
PackProg(pg) == IF pg = <<>> THEN <<>>
                ELSE <<[head |-> Pack(Head(pg).head), body |-> PackGoal(Head(pg).body)]>> \o PackProg(Tail(pg))
RECURSIVE PackToks(_)
PackToks(ts) == IF ts = <<>> THEN <<>>
                ELSE <<[t |-> Head(ts).t, s |-> Head(ts).s, q |-> Pack(Head(ts).q), ans |-> PackSeq(Head(ts).ans)]>> \o PackToks(Tail(ts))
Case == [ t |-> "repl", slice |-> Slice, prog |-> PackProg(rprog), transcript |-> PackToks(rout), path |-> <<"ReplPrompt", "ReplAnswer">> ]
Emit == Done => PrintT(<<"CASE", ToJson(Case)>>)

=============================================================================
