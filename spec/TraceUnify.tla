------------------------------ MODULE TraceUnify ------------------------------
(***************************************************************************)
(* Trace validation of the unifier (C06 C07 C08 C09): sessions of          *)
(* unifications RECORDED from the real Unifiable::unify on randomly        *)
(* generated terms (deeper and wider than the exhaustive universes of      *)
(* MC_Unify) are checked against the Unify machine of Unify.tla.           *)
(*                                                                         *)
(* The trace (ndjson, path in the environment variable TRACE):             *)
(*    session  nvars          a new session: empty bindings, variables 1..n *)
(*    try      l, r           the engine is about to unify l with r         *)
(*    res      ok, vals       its outcome: success, and the resolved        *)
(*             cycle, anon    canonical value of every variable; whether    *)
(*             rok, rvals     the returned bindings are cyclic or bind a    *)
(*             rcycle         variable to $_; the same for r unified with l *)
(*    panic / crash / hang    the engine did not return                     *)
(* A successful unification's bindings are the start of the next one.      *)
(*                                                                         *)
(* For each try/res the machine is run on (l, r) and on (r, l) from the     *)
(* session's current bindings.  Pairs on which the machine stops with       *)
(* "occurs" (an occurs check would be needed) or "out" end the session      *)
(* without a verdict.  Otherwise the recorded outcome must be the           *)
(* machine's: same success; on success the same value for every variable    *)
(* up to renaming of unbound variables; no cycle; nothing bound to $_; and   *)
(* the same again in the other order.  A session that differs is reported   *)
(* (REJECTED, with the component that differs) and abandoned; validation    *)
(* goes on with the next session.                                           *)
(***************************************************************************)
EXTENDS Unify, Json, IOUtils

VARIABLES l,        \* position in the trace
          bind,     \* the session's current bindings
          nv,       \* number of variables of the session
          pend,     \* <<>> or <<l, r>>: a `try` whose outcome has not been read
          phase,    \* "fresh" | "in" | "skip" | "done"
          nok,      \* unifications validated
          nanon,    \* ... of which with $_ in one of the terms
          nskip,    \* sessions ended without a verdict (outside the claim)
          nrej      \* sessions rejected

vars == <<l, bind, nv, pend, phase, nok, nanon, nskip, nrej>>

ASSUME TLCSet(8, ndJsonDeserialize(IOEnv.TRACE))
Rec == TLCGet(8)
More == l <= Len(Rec)
TEv == Rec[l]

RECURSIVE Unpack(_), UnpackSeq(_)
Unpack(j) ==
    CASE j.k = "atom" -> Atom(j.s)
      [] j.k = "int"  -> T("int", j.s, j.n, j.e, <<>>, <<>>)
      [] j.k = "flt"  -> T("flt", j.s, j.n, j.e, <<>>, <<>>)
      [] j.k = "var"  -> Var(j.n, j.s)
      [] j.k = "anon" -> Anon
      [] j.k = "cx"   -> Cx(j.s, UnpackSeq(j.a))
      [] j.k = "fn"   -> Fn(j.s, UnpackSeq(j.a))
      [] j.k = "list" -> T("list", "", 0, 0, UnpackSeq(j.a), UnpackSeq(j.t))
      [] OTHER -> NoT
UnpackSeq(s) == IF Len(s) = 0 THEN <<>> ELSE <<Unpack(s[1])>> \o UnpackSeq(SubSeq(s, 2, Len(s)))

RECURSIVE NormDeep(_), NormDeepSeq(_)
NormDeep(t) == CASE t.k \in {"int", "flt"} -> NormNum(t)
                 [] t.k \in {"cx", "fn"} -> [t EXCEPT !.a = NormDeepSeq(t.a)]
                 [] t.k = "list" -> [t EXCEPT !.a = NormDeepSeq(t.a), !.t = NormDeepSeq(t.t)]
                 [] OTHER -> t
NormDeepSeq(ts) == IF ts = <<>> THEN <<>> ELSE <<NormDeep(Head(ts))>> \o NormDeepSeq(Tail(ts))

(* variable names are irrelevant to the comparison *)
RECURSIVE NoNames(_), NoNamesSeq(_)
NoNames(t) == CASE t.k = "var" -> Var(t.n, "")
                [] t.k \in {"cx", "fn"} -> [t EXCEPT !.a = NoNamesSeq(t.a)]
                [] t.k = "list" -> [t EXCEPT !.a = NoNamesSeq(t.a), !.t = NoNamesSeq(t.t)]
                [] OTHER -> t
NoNamesSeq(ts) == IF ts = <<>> THEN <<>> ELSE <<NoNames(Head(ts))>> \o NoNamesSeq(Tail(ts))

(* resolved canonical values of variables 1..nv under b, as the recorder projects them *)
VarVals(b) == NoNamesSeq(NormDeepSeq(Answer(nv, b)))
Logged(v) == NoNamesSeq(NormDeepSeq(UnpackSeq(v)))

Init == /\ l = 1 /\ bind = <<>> /\ nv = 0 /\ pend = <<>> /\ phase = "fresh"
        /\ nok = 0 /\ nanon = 0 /\ nskip = 0 /\ nrej = 0

StartSession ==
    /\ phase \in {"fresh", "in", "skip"} /\ More /\ TEv.e = "session" /\ pend = <<>>
    /\ bind' = EmptyBind(TEv.nvars) /\ nv' = TEv.nvars
    /\ phase' = "in" /\ l' = l + 1
    /\ UNCHANGED <<pend, nok, nanon, nskip, nrej>>

Try ==
    /\ phase = "in" /\ More /\ TEv.e = "try" /\ pend = <<>>
    /\ pend' = <<Unpack(TEv.l), Unpack(TEv.r)>>
    /\ l' = l + 1
    /\ UNCHANGED <<bind, nv, phase, nok, nanon, nskip, nrej>>

RECURSIVE HasAnon(_)
HasAnon(t) == \/ t.k = "anon"
              \/ (t.k \in {"cx", "fn", "list"} /\ \E i \in DOMAIN t.a : HasAnon(t.a[i]))
              \/ (t.k = "list" /\ t.t # <<>> /\ HasAnon(t.t[1]))
InClaim(r) == r.status \in {"ok", "fail"}
(* a property of the MACHINE (checked by TLC on the exhaustive universes as Symmetric): a violation here *)
(* is reported as SPEC-ERROR, a defect of Unify.tla, not of the implementation                           *)
MachSym(r, rr) == r.status = rr.status /\ (r.status = "ok" => VarVals(r.bind) = VarVals(rr.bind))

(* which component of the recorded outcome differs from the machine's ("" = none) *)
Diff(ev, r, rr) ==
    IF ev.ok # (r.status = "ok") THEN "success"
    ELSE IF ev.ok /\ ev.cycle THEN "cycle"
    ELSE IF ev.ok /\ ev.anon THEN "anon-bound"
    ELSE IF ev.ok /\ Logged(ev.vals) # VarVals(r.bind) THEN "values"
    ELSE IF ev.rok # (rr.status = "ok") THEN "reverse-success"
    ELSE IF ev.rok /\ ev.rcycle THEN "reverse-cycle"
    ELSE IF ev.rok /\ Logged(ev.rvals) # VarVals(rr.bind) THEN "reverse-values"
    ELSE ""

(* the rejected step as a case of the replay driver (./check C06 --replay), with the machine's outcome *)
CaseOf(r) ==
    [t |-> "unify", slice |-> "plain", pairs |-> <<[l |-> Pack(pend[1]), r |-> Pack(pend[2])]>>,
     prior |-> PackSeq(bind), status |-> r.status, done |-> IF r.status = "ok" THEN 1 ELSE 0,
     res |-> PackSeq(Answer(nv, IF r.status = "ok" THEN r.bind ELSE bind)), path |-> r.path]
Reject(kind) ==
    /\ PrintT(<<"REJECTED", [at |-> l, kind |-> kind, anon |-> (pend # <<>> /\ (HasAnon(pend[1]) \/ HasAnon(pend[2]))),
                             case |-> IF pend = <<>> THEN "" ELSE ToJson(CaseOf(UnifyBig(pend[1], pend[2], bind)))]>>)
    /\ nrej' = nrej + 1 /\ phase' = "skip" /\ pend' = <<>> /\ l' = l + 1
    /\ UNCHANGED <<bind, nv, nok, nanon, nskip>>

Res ==
    /\ phase = "in" /\ More /\ TEv.e = "res" /\ pend # <<>>
    /\ LET r  == UnifyBig(pend[1], pend[2], bind)
           rr == UnifyBig(pend[2], pend[1], bind)
       IN IF ~InClaim(r) \/ ~InClaim(rr)
          THEN /\ phase' = "skip" /\ nskip' = nskip + 1 /\ pend' = <<>> /\ l' = l + 1
               /\ UNCHANGED <<bind, nv, nok, nanon, nrej>>
          ELSE LET d == IF MachSym(r, rr) THEN Diff(TEv, r, rr) ELSE "SPEC-ERROR machine not symmetric" IN
               IF d # "" THEN Reject(d)
               ELSE /\ bind' = IF r.status = "ok" THEN r.bind ELSE bind
                    /\ nok' = nok + 1 /\ pend' = <<>> /\ l' = l + 1
                    /\ nanon' = IF HasAnon(pend[1]) \/ HasAnon(pend[2]) THEN nanon + 1 ELSE nanon
                    /\ UNCHANGED <<nv, phase, nskip, nrej>>

(* the engine did not return: a behaviour of the specification only when the pair *)
(* is outside the claim                                                           *)
Died ==
    /\ phase = "in" /\ More /\ TEv.e \in {"panic", "crash", "hang"}
    /\ IF pend = <<>> THEN Reject("died-outside-a-call")
       ELSE LET r  == UnifyBig(pend[1], pend[2], bind)
                rr == UnifyBig(pend[2], pend[1], bind)
            IN IF InClaim(r) /\ InClaim(rr) THEN Reject(TEv.e)
               ELSE /\ phase' = "skip" /\ nskip' = nskip + 1 /\ pend' = <<>> /\ l' = l + 1
                    /\ UNCHANGED <<bind, nv, nok, nanon, nrej>>

Skip ==
    /\ phase = "skip" /\ More /\ TEv.e # "session"
    /\ l' = l + 1
    /\ UNCHANGED <<bind, nv, pend, phase, nok, nanon, nskip, nrej>>

Finished ==
    /\ phase # "done" /\ ~More
    /\ PrintT(<<"VALIDATED", nok, nskip, nrej, nanon, l - 1>>)
    /\ phase' = "done"
    /\ UNCHANGED <<l, bind, nv, pend, nok, nanon, nskip, nrej>>

(* a malformed trace (an event no action takes) is a tool error: TLC stops here    *)
Next == StartSession \/ Try \/ Res \/ Died \/ Skip \/ Finished
Spec == Init /\ [][Next]_vars

(* ---------------- properties of the MACHINE on the recorded inputs ---------------- *)
(* (a violation means Unify.tla is wrong for that input, not the implementation)      *)
MachineAcyclic == Acyclic(bind)
MachineNoAnon  == \A i \in DOMAIN bind : bind[i] # Anon
Consumed == (phase = "done") => ~More

=============================================================================
