------------------------------- MODULE Timer -------------------------------
(***************************************************************************)
(* The query timer (time_out.rs + the thread_timer 0.3 crate) and the      *)
(* reporting rule of solve() as a two-thread protocol (C23, C22).          *)
(*                                                                         *)
(* NQ queries are solved one after the other on the main thread.  Each     *)
(* solve():  start_query_timer (clear the flag, create timer k, arm it)    *)
(*           search            (polls the stop flag in count_rules())      *)
(*           cancel_timer      (thread_timer's cancel protocol)            *)
(*           read the flag     (report a timeout or the search's result)   *)
(* Timer thread k: wait on the cancel condvar with a timeout; if the wait  *)
(* times out, run the callback WHILE HOLDING the cancel lock; then clear   *)
(* is_canceled, is_waiting.  cancel() uses try_lock on the cancel lock and *)
(* returns NotWaiting immediately when the timer thread holds it -- i.e.   *)
(* while the callback may not have run yet.                                *)
(*                                                                         *)
(* A query is "fast" (its search ends well within the limit: its own timer *)
(* cannot expire before it is cancelled) or "slow" (the timer may expire   *)
(* at any moment).  Locks are modelled at the granularity of the crate's   *)
(* mutexes; the stop flag is an unsynchronised global.                     *)
(*                                                                         *)
(* GenerationFix = FALSE is the code as found; TRUE is the repaired        *)
(* protocol: the callback only sets the flag if its query is still the     *)
(* current one, checked under a lock that cancel_timer also takes.         *)
(***************************************************************************)
EXTENDS Naturals, Sequences, FiniteSets, TLC

CONSTANTS NQ,              \* number of consecutive queries
          GenerationFix    \* BOOLEAN

Q == 1..NQ

VARIABLES
    Slow,         \* the set of queries whose timer may expire (fixed per behaviour)
    cbAt,         \* history: where the main thread was when each callback ran: <<i, k, mpc>>
    mpc,          \* main thread: "start" | "search" | "cancel1" | "cancel_wait" | "read" | "done"
    k,            \* the current query
    flag,         \* SUIRON_STOP_QUERY
    tpc,          \* timer thread k: "none" | "waiting" | "expired" | "callback" | "after" | "gone"
    cancelLock,   \* holder of timer k's cancel mutex: "none" | "T" | "M"
    isWaiting, isCanceled,
    gen,          \* (fix) generation of the query whose timer may set the flag; 0 = none
    aborted,      \* the search of query k observed the flag and wound down
    ownExpired,   \* timer k's wait timed out (the limit of query k was exceeded)
    reported,     \* "none" | "answer" | "timeout"
    cancelled,    \* cancel_timer() of query k has returned
    lateFire      \* some callback set the flag after its own cancel_timer() had returned

tvars == <<Slow, cbAt, mpc, k, flag, tpc, cancelLock, isWaiting, isCanceled, gen, aborted, ownExpired, reported, cancelled, lateFire>>

Init ==
    /\ Slow \in SUBSET Q /\ cbAt = <<>>
    /\ mpc = "start" /\ k = 1 /\ flag = FALSE
    /\ tpc = [i \in Q |-> "none"] /\ cancelLock = [i \in Q |-> "none"]
    /\ isWaiting = [i \in Q |-> FALSE] /\ isCanceled = [i \in Q |-> FALSE]
    /\ gen = 0
    /\ aborted = [i \in Q |-> FALSE] /\ ownExpired = [i \in Q |-> FALSE]
    /\ reported = [i \in Q |-> "none"] /\ cancelled = [i \in Q |-> FALSE]
    /\ lateFire = FALSE

(* ---------------- main thread ---------------- *)
StartTimer ==                       \* start_query_timer(): clear the flag, new timer, start()
    /\ mpc = "start"
    /\ flag' = FALSE
    /\ gen' = k
    /\ isWaiting' = [isWaiting EXCEPT ![k] = TRUE]
    /\ tpc' = [tpc EXCEPT ![k] = "waiting"]       \* the thread takes the message and waits on the condvar
    /\ mpc' = "search"
    /\ UNCHANGED <<Slow, cbAt, k, cancelLock, isCanceled, aborted, ownExpired, reported, cancelled, lateFire>>

SearchPoll ==                       \* count_rules() reads the flag
    /\ mpc = "search" /\ flag /\ ~aborted[k]
    /\ aborted' = [aborted EXCEPT ![k] = TRUE]
    /\ UNCHANGED <<Slow, cbAt, mpc, k, flag, tpc, cancelLock, isWaiting, isCanceled, gen, ownExpired, reported, cancelled, lateFire>>

SearchEnds ==                       \* next_solution() returns (its true result unless aborted)
    /\ mpc = "search"
    /\ mpc' = "cancel1"
    /\ UNCHANGED <<Slow, cbAt, k, flag, tpc, cancelLock, isWaiting, isCanceled, gen, aborted, ownExpired, reported, cancelled, lateFire>>

CancelTry ==                        \* cancel(): is_waiting? try_lock(cancel_lock)
    /\ mpc = "cancel1"
    /\ IF ~isWaiting[k] \/ cancelLock[k] # "none"
       THEN (* NotWaiting: returns at once -- even if the callback has not run yet *)
            /\ mpc' = "invalidate" /\ UNCHANGED <<cancelLock, isCanceled>>
       ELSE /\ isCanceled' = [isCanceled EXCEPT ![k] = TRUE]       \* set, notify, drop the lock
            /\ mpc' = "cancel_wait" /\ UNCHANGED cancelLock
    /\ UNCHANGED <<Slow, cbAt, k, flag, tpc, isWaiting, gen, aborted, ownExpired, reported, cancelled, lateFire>>

CancelWait ==                       \* wait until the timer thread acknowledges
    /\ mpc = "cancel_wait" /\ ~isWaiting[k]
    /\ mpc' = "invalidate"
    /\ UNCHANGED <<Slow, cbAt, k, flag, tpc, cancelLock, isWaiting, isCanceled, gen, aborted, ownExpired, reported, cancelled, lateFire>>

Invalidate ==                       \* (fix) cancel_timer() ends the generation under the lock
    /\ mpc = "invalidate"
    /\ gen' = IF GenerationFix THEN 0 ELSE gen
    /\ cancelled' = [cancelled EXCEPT ![k] = TRUE]
    /\ mpc' = "read"
    /\ UNCHANGED <<Slow, cbAt, k, flag, tpc, cancelLock, isWaiting, isCanceled, aborted, ownExpired, reported, lateFire>>

ReadFlag ==                         \* if query_stopped() { timeout } else { result }
    /\ mpc = "read"
    /\ reported' = [reported EXCEPT ![k] = IF flag THEN "timeout" ELSE "answer"]
    /\ IF k < NQ THEN k' = k + 1 /\ mpc' = "start" ELSE k' = k /\ mpc' = "done"
    /\ UNCHANGED <<Slow, cbAt, flag, tpc, cancelLock, isWaiting, isCanceled, gen, aborted, ownExpired, cancelled, lateFire>>

(* ---------------- timer thread i ---------------- *)
Expire(i) ==                        \* the wait times out: the thread re-acquires the cancel lock
    /\ tpc[i] = "waiting" /\ i \in Slow /\ ~isCanceled[i] /\ cancelLock[i] = "none"
    /\ ~cancelled[i]
    /\ tpc' = [tpc EXCEPT ![i] = "expired"]
    /\ cancelLock' = [cancelLock EXCEPT ![i] = "T"]
    /\ ownExpired' = [ownExpired EXCEPT ![i] = TRUE]
    /\ UNCHANGED <<Slow, cbAt, mpc, k, flag, isWaiting, isCanceled, gen, aborted, reported, cancelled, lateFire>>

Woken(i) ==                         \* cancelled: wakes up holding the lock, does not run the callback
    /\ tpc[i] = "waiting" /\ isCanceled[i] /\ cancelLock[i] = "none"
    /\ tpc' = [tpc EXCEPT ![i] = "after"]
    /\ cancelLock' = [cancelLock EXCEPT ![i] = "T"]
    /\ UNCHANGED <<Slow, cbAt, mpc, k, flag, isWaiting, isCanceled, gen, aborted, ownExpired, reported, cancelled, lateFire>>

Callback(i) ==                      \* (msg.f)(): stop_query(), still holding the cancel lock
    /\ tpc[i] = "expired"
    /\ LET sets == IF GenerationFix THEN gen = i ELSE TRUE IN
       /\ flag' = IF sets THEN TRUE ELSE flag
       /\ lateFire' = (lateFire \/ (sets /\ cancelled[i]))
    /\ tpc' = [tpc EXCEPT ![i] = "after"]
    /\ cbAt' = Append(cbAt, <<i, k, mpc>>)
    /\ UNCHANGED <<Slow, mpc, k, cancelLock, isWaiting, isCanceled, gen, aborted, ownExpired, reported, cancelled>>

Finish(i) ==                        \* clear is_canceled, is_waiting; release the lock; the thread ends
    /\ tpc[i] = "after"
    /\ isCanceled' = [isCanceled EXCEPT ![i] = FALSE]
    /\ isWaiting' = [isWaiting EXCEPT ![i] = FALSE]
    /\ cancelLock' = [cancelLock EXCEPT ![i] = "none"]
    /\ tpc' = [tpc EXCEPT ![i] = "gone"]
    /\ UNCHANGED <<Slow, cbAt, mpc, k, flag, gen, aborted, ownExpired, reported, cancelled, lateFire>>

Next == \/ StartTimer \/ SearchPoll \/ SearchEnds \/ CancelTry \/ CancelWait \/ Invalidate \/ ReadFlag
        \/ \E i \in Q : Expire(i) \/ Woken(i) \/ Callback(i) \/ Finish(i)

Spec == Init /\ [][Next]_tvars

(* Liveness (checked only under this fair specification, never under a state constraint): with weak fairness *)
(* of the main thread's steps and of each timer thread's steps after its wait ended, every solve() returns:    *)
(* in particular cancel() never waits for ever for a timer thread that is gone                                 *)
MainStep == StartTimer \/ SearchPoll \/ SearchEnds \/ CancelTry \/ CancelWait \/ Invalidate \/ ReadFlag
ThreadStep(i) == Woken(i) \/ Callback(i) \/ Finish(i)
FairSpec == Spec /\ WF_tvars(MainStep) /\ \A i \in Q : WF_tvars(ThreadStep(i))
EveryQueryReports == <>(mpc = "done")

(* ---------------- C23 ---------------- *)
(* a timeout is only reported when the query's own limit was exceeded           *)
NoFalseTimeout == \A i \in Q : reported[i] = "timeout" => ownExpired[i]
(* what is reported as an answer is the result of a search that ran to its end   *)
RealAnswers    == \A i \in Q : reported[i] = "answer" => ~aborted[i]
(* a search that finishes well within the limit is never disturbed               *)
FastUndisturbed == \A i \in Q \ Slow : ~aborted[i] /\ reported[i] # "timeout"
(* the mechanism: no callback sets the flag after its cancel_timer() returned    *)
NoLateFire     == ~lateFire
(* the main thread never blocks for ever in cancel()                             *)
CancelReturns  == (mpc = "cancel_wait") => (isWaiting[k] => tpc[k] \in {"waiting", "after"})

=============================================================================
