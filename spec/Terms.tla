------------------------------- MODULE Terms -------------------------------
(***************************************************************************)
(* Term algebra of Suiron, substitutions, dereferencing, canonical forms.  *)
(*                                                                         *)
(* Terms are records of ONE uniform shape so that TLC can always compare   *)
(* them and put them into sets:                                            *)
(*     k  kind tag      s  string payload     n,e  integer payloads        *)
(*     a  argument / element sequence         t  <<>> or <<tail term>>     *)
(* Lists are abstract here (elements + optional tail); the cons-cell layer *)
(* of the implementation is modelled in Lists.tla.                         *)
(* A substitution ("binding vector") is a sequence indexed by variable id, *)
(* exactly like SubstitutionSet; NoT marks an unbound slot.                *)
(***************************************************************************)
EXTENDS Integers, Sequences, FiniteSets, TLC

T(k, s, n, e, a, t) == [k |-> k, s |-> s, n |-> n, e |-> e, a |-> a, t |-> t]

NoT            == T("none", "", 0, 0, <<>>, <<>>)
Atom(s)        == T("atom", s, 0, 0, <<>>, <<>>)
IntT(n)        == T("int", "", n, 0, <<>>, <<>>)
(* exact numbers: value = n * 2^e ; s carries "", "inf", "-inf", "nan"      *)
IntE(n, e)     == T("int", "", n, e, <<>>, <<>>)
(* n * 2^e + 1 / - 1: the neighbours of a large power of two (comparisons only; arithmetic on them is "out") *)
IntA(n, e, adj) == T("int", IF adj = 1 THEN "+1" ELSE "-1", n, e, <<>>, <<>>)
FltA(n, e, adj) == T("flt", IF adj = 1 THEN "+1" ELSE "-1", n, e, <<>>, <<>>)      \* the float n * 2^e +- 1 (an f64 only below 2^53)
Flt(n, e)      == T("flt", "", n, e, <<>>, <<>>)
FltS(tag)      == T("flt", tag, 0, 0, <<>>, <<>>)
Var(id, name)  == T("var", name, id, 0, <<>>, <<>>)
Anon           == T("anon", "", 0, 0, <<>>, <<>>)
Cx(f, args)    == T("cx", f, 0, 0, args, <<>>)
Lst(els)       == T("list", "", 0, 0, els, <<>>)
LstT(els, tl)  == T("list", "", 0, 0, els, <<tl>>)
Fn(name, args) == T("fn", name, 0, 0, args, <<>>)
EmptyList      == Lst(<<>>)

IsVar(t)   == t.k = "var"
IsConst(t) == t.k \in {"atom", "int", "flt"}
IsNum(t)   == t.k \in {"int", "flt"}

(* ---------------- substitutions ---------------- *)
EmptyBind(n) == [i \in 1..n |-> NoT]
Bound(id, b) == id \in DOMAIN b /\ b[id] # NoT

(* grow a binding vector so that index id exists (SubstitutionSet growth)  *)
Grow(b, id) == IF id <= Len(b) THEN b
               ELSE b \o [i \in 1..(id - Len(b)) |-> NoT]
BindTo(b, id, t) == [Grow(b, id) EXCEPT ![id] = t]

RECURSIVE WalkF(_, _, _)
WalkF(t, b, fuel) ==
    IF t.k = "var" /\ Bound(t.n, b) /\ fuel > 0
    THEN WalkF(b[t.n], b, fuel - 1) ELSE t
(* follow a chain of variable bindings; the fuel makes it total on cycles  *)
Walk(t, b) == WalkF(t, b, Len(b) + 1)

RECURSIVE VarsOf(_)
VarsOf(t) ==
    CASE t.k = "var" -> {t.n}
      [] t.k \in {"cx", "fn"} -> UNION {VarsOf(t.a[i]) : i \in DOMAIN t.a}
      [] t.k = "list" -> UNION {VarsOf(t.a[i]) : i \in DOMAIN t.a}
                         \cup (IF t.t = <<>> THEN {} ELSE VarsOf(t.t[1]))
      [] OTHER -> {}

RECURSIVE ReachF(_, _, _)
ReachF(S, b, fuel) ==
    IF fuel = 0 THEN S
    ELSE LET S2 == S \cup UNION {VarsOf(b[j]) : j \in {i \in S : Bound(i, b)}}
         IN IF S2 = S THEN S ELSE ReachF(S2, b, fuel - 1)
(* variables reachable from the term t through the bindings b              *)
Reach(t, b) == ReachF(VarsOf(t), b, Len(b) + 1)

(* C08: following bindings from any variable never comes back to it        *)
Acyclic(b) == \A i \in DOMAIN b : b[i] = NoT \/ i \notin Reach(b[i], b)

(* full dereference. Only meaningful on acyclic bindings.                   *)
RECURSIVE Resolve(_, _), ResolveSeq(_, _)
Resolve(t, b) ==
    LET w == Walk(t, b) IN
    CASE w.k \in {"cx", "fn"} -> [w EXCEPT !.a = ResolveSeq(w.a, b)]
      [] w.k = "list" ->
            LET els == ResolveSeq(w.a, b) IN
            IF w.t = <<>> THEN [w EXCEPT !.a = els]
            ELSE LET tl == Resolve(w.t[1], b) IN
                 IF tl.k = "list"
                 THEN [w EXCEPT !.a = els \o tl.a, !.t = tl.t]
                 ELSE [w EXCEPT !.a = els, !.t = <<tl>>]
      [] OTHER -> w
ResolveSeq(s, b) ==
    IF s = <<>> THEN <<>> ELSE <<Resolve(Head(s), b)>> \o ResolveSeq(Tail(s), b)

(* ---------------- canonical form up to renaming of unbound variables ---- *)
InSeq(x, s) == \E i \in DOMAIN s : s[i] = x
IndexOf(x, s) == CHOOSE i \in DOMAIN s : s[i] = x

RECURSIVE OccOrder(_, _), OccSeq(_, _)
(* append the not-yet-seen variable ids of t, left to right, to acc         *)
OccOrder(t, acc) ==
    CASE t.k = "var" -> IF InSeq(t.n, acc) THEN acc ELSE Append(acc, t.n)
      [] t.k \in {"cx", "fn"} -> OccSeq(t.a, acc)
      [] t.k = "list" -> LET after == OccSeq(t.a, acc)
                         IN IF t.t = <<>> THEN after ELSE OccOrder(t.t[1], after)
      [] OTHER -> acc
OccSeq(s, acc) == IF s = <<>> THEN acc ELSE OccSeq(Tail(s), OccOrder(Head(s), acc))

RECURSIVE RenameBy(_, _), RenameSeq(_, _)
RenameBy(t, acc) ==
    CASE t.k = "var" -> Var(IndexOf(t.n, acc), "_G")
      [] t.k \in {"cx", "fn"} -> [t EXCEPT !.a = RenameSeq(t.a, acc)]
      [] t.k = "list" -> [t EXCEPT !.a = RenameSeq(t.a, acc),
                                   !.t = IF t.t = <<>> THEN <<>>
                                         ELSE <<RenameBy(t.t[1], acc)>>]
      [] OTHER -> t
RenameSeq(s, acc) ==
    IF s = <<>> THEN <<>> ELSE <<RenameBy(Head(s), acc)>> \o RenameSeq(Tail(s), acc)

(* Canon(<<t1..tn>>): the same sequence with unbound variables renamed by   *)
(* first occurrence -- "equal up to renaming of unbound variables"          *)
Canon(vec) == RenameSeq(vec, OccSeq(vec, <<>>))

(* resolved, canonical values of variables 1..n under b                     *)
RECURSIVE VarVec(_, _)
VarVec(i, n) == IF i > n THEN <<>> ELSE <<Var(i, "")>> \o VarVec(i + 1, n)
Answer(n, b) == Canon(ResolveSeq(VarVec(1, n), b))

(* ---------------- renaming apart (recreate_variables) ------------------- *)
(* Program variables are Var(0, name).  Rename assigns ids next, next+1, ..*)
(* by first occurrence of each NAME; returns the renamed sequence of terms  *)
(* and the name map.                                                        *)
RECURSIVE NameOrder(_, _), NameSeq(_, _)
NameOrder(t, acc) ==
    CASE t.k = "var" -> IF InSeq(t.s, acc) THEN acc ELSE Append(acc, t.s)
      [] t.k \in {"cx", "fn"} -> NameSeq(t.a, acc)
      [] t.k = "list" -> LET after == NameSeq(t.a, acc)
                         IN IF t.t = <<>> THEN after ELSE NameOrder(t.t[1], after)
      [] OTHER -> acc
NameSeq(s, acc) == IF s = <<>> THEN acc ELSE NameSeq(Tail(s), NameOrder(Head(s), acc))

RECURSIVE ReIdBy(_, _, _), ReIdSeq(_, _, _)
ReIdBy(t, names, base) ==
    CASE t.k = "var" -> Var(base + IndexOf(t.s, names), t.s)
      [] t.k \in {"cx", "fn"} -> [t EXCEPT !.a = ReIdSeq(t.a, names, base)]
      [] t.k = "list" -> [t EXCEPT !.a = ReIdSeq(t.a, names, base),
                                   !.t = IF t.t = <<>> THEN <<>>
                                         ELSE <<ReIdBy(t.t[1], names, base)>>]
      [] OTHER -> t
ReIdSeq(s, names, base) ==
    IF s = <<>> THEN <<>>
    ELSE <<ReIdBy(Head(s), names, base)>> \o ReIdSeq(Tail(s), names, base)

(* ---------------- compact JSON-friendly projection ---------------------- *)
RECURSIVE Pack(_), PackSeq(_)
Pack(t) ==
    CASE t.k = "atom" -> [k |-> "atom", s |-> t.s]
      [] t.k = "int"  -> [k |-> "int", n |-> t.n, e |-> t.e, s |-> t.s]
      [] t.k = "flt"  -> [k |-> "flt", n |-> t.n, e |-> t.e, s |-> t.s]
      [] t.k = "ftx"  -> [k |-> "ftx", s |-> t.s]
      [] t.k = "var"  -> [k |-> "var", n |-> t.n, s |-> t.s]
      [] t.k = "cx"   -> [k |-> "cx", s |-> t.s, a |-> PackSeq(t.a)]
      [] t.k = "fn"   -> [k |-> "fn", s |-> t.s, a |-> PackSeq(t.a)]
      [] t.k = "list" -> [k |-> "list", a |-> PackSeq(t.a), t |-> PackSeq(t.t)]
      [] OTHER -> [k |-> t.k]
PackSeq(s) == IF s = <<>> THEN <<>> ELSE <<Pack(Head(s))>> \o PackSeq(Tail(s))

=============================================================================
