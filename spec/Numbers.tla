------------------------------ MODULE Numbers ------------------------------
(***************************************************************************)
(* Exact numbers for Suiron's SInteger (i64) and SFloat (f64).             *)
(*                                                                         *)
(* TLC has 32-bit integers and no reals, so a number is  n * 2^e  with a   *)
(* small mantissa n (|n| < 2^30) and an exponent e (negative e = binary    *)
(* fraction), or one of the tokens inf / -inf / nan (floats only).         *)
(* Every operation is exact and PARTIAL: Can*(..) says when the result is  *)
(* representable here; the generators only produce argument lists on which *)
(* every intermediate result is representable, and every such value is     *)
(* also exactly representable as f64 (53-bit mantissa) resp. i64 (FitsI64),*)
(* so IEEE-754 / two's complement arithmetic must give exactly this value. *)
(* Rounding of inexact float operations is NOT modelled.                   *)
(***************************************************************************)
EXTENDS Terms

MBound == 1073741824        \* 2^30

Abs(x) == IF x < 0 THEN -x ELSE x
Sgn(x) == IF x < 0 THEN -1 ELSE IF x > 0 THEN 1 ELSE 0

RECURSIVE Pow2(_)
Pow2(k) == IF k = 0 THEN 1 ELSE 2 * Pow2(k - 1)      \* only for 0 <= k <= 30

RECURSIVE BitLen(_)
BitLen(x) == IF x = 0 THEN 0 ELSE 1 + BitLen(Abs(x) \div 2)

(* value record: [n, e, tag, d]; tag "" for finite.  d is an OFFSET of -1, 0 or +1 added to n * 2^e: it lets  *)
(* the integers next to a large power of two (2^53 + 1, 2^63 - 1 ...) be values too, which n * 2^e alone cannot  *)
(* express with a small n; only integer addition, subtraction and multiplication by 0 / 1 / -1 (IntStepOff in     *)
(* Funcs.tla) and the comparisons (Builtins.tla) know about it, every other operation requires d = 0              *)
Val(n, e)  == [n |-> n, e |-> e, tag |-> "", d |-> 0]
ValD(n, e, d) == [n |-> n, e |-> e, tag |-> "", d |-> d]
ValS(tag)  == [n |-> 0, e |-> 0, tag |-> tag, d |-> 0]
Finite(v)  == v.tag = ""

RECURSIVE NormV(_)
NormV(v) == IF ~Finite(v) THEN v
            ELSE IF v.n = 0 THEN Val(v.d, 0)
            ELSE IF v.n % 2 = 0 THEN NormV(ValD(v.n \div 2, v.e + 1, v.d))
            ELSE v

(* order of magnitude: |v| is in [2^(Mag-1), 2^Mag)                          *)
Mag(v) == BitLen(v.n) + v.e

(* Can two finite values be aligned to a common exponent inside 2^30 ?       *)
CanAlign(x, y) ==
    LET e == IF x.e < y.e THEN x.e ELSE y.e IN
    /\ (x.n = 0 \/ BitLen(x.n) + (x.e - e) <= 29)
    /\ (y.n = 0 \/ BitLen(y.n) + (y.e - e) <= 29)
AlignedN(x, e) == IF x.n = 0 THEN 0 ELSE x.n * Pow2(x.e - e)

AddV(x, y) == LET e == IF x.e < y.e THEN x.e ELSE y.e
              IN NormV(Val(AlignedN(x, e) + AlignedN(y, e), e))
NegV(x)    == Val(-x.n, x.e)
SubV(x, y) == AddV(x, NegV(y))
CanMul(x, y) == BitLen(x.n) + BitLen(y.n) <= 29
MulV(x, y) == NormV(Val(x.n * y.n, x.e + y.e))

(* ---- comparison of finite values (total) -------------------------------- *)
LessV(x0, y0) ==
    LET x == NormV(x0)  y == NormV(y0) IN
    IF Sgn(x.n) # Sgn(y.n) THEN Sgn(x.n) < Sgn(y.n)
    ELSE IF x.n = 0 THEN FALSE
    ELSE IF Mag(x) # Mag(y)
         THEN (IF x.n > 0 THEN Mag(x) < Mag(y) ELSE Mag(x) > Mag(y))
    ELSE LET e == IF x.e < y.e THEN x.e ELSE y.e      \* same magnitude: alignable
         IN AlignedN(x, e) < AlignedN(y, e)
EqV(x0, y0) == NormV(x0) = NormV(y0)

(* ---- i64 / f64 representability ------------------------------------------ *)
FitsI64(v) == /\ Finite(v) /\ v.e >= 0
              /\ IF v.d = 0 THEN (Mag(v) <= 63 \/ (v.n < 0 /\ NormV(v) = Val(-1, 63)))
                 ELSE (Mag(v) <= 63 \/ NormV(v) = ValD(1, 63, -1) \/ NormV(v) = ValD(-1, 63, 1))
ExactF64(v) == ~Finite(v) \/ (BitLen(v.n) <= 53 /\ Mag(v) <= 1000 /\ v.e >= -1000)

(* ---- integer division, truncating toward zero (TLA+ \div floors) -------- *)
TruncDiv(a, b) == Sgn(a) * Sgn(b) * (Abs(a) \div Abs(b))

(* x / y on i64 values; defined when the small-integer quotient is computable *)
CanIntDiv(x, y) ==
    /\ y.n # 0
    /\ IF x.e >= y.e THEN x.n = 0 \/ BitLen(x.n) + (x.e - y.e) <= 29
       ELSE BitLen(y.n) + (y.e - x.e) <= 29
IntDivV(x, y) ==
    IF x.e >= y.e
    THEN NormV(Val(TruncDiv(AlignedN(x, y.e), y.n), 0))
    ELSE NormV(Val(TruncDiv(x.n, AlignedN(y, x.e)), 0))

(* x / y on f64 values; exact when the (odd) divisor mantissa divides         *)
CanFltDiv(x0, y0) ==
    LET x == NormV(x0)  y == NormV(y0) IN y.n = 0 \/ x.n % Abs(y.n) = 0
FltDivV(x0, y0) ==
    LET x == NormV(x0)  y == NormV(y0) IN
    IF y.n = 0
    THEN (IF x.n > 0 THEN ValS("inf") ELSE IF x.n < 0 THEN ValS("-inf") ELSE ValS("nan"))
    ELSE NormV(Val(Sgn(y.n) * (x.n \div Abs(y.n)), x.e - y.e))      \* exact: remainder is 0

(* ---- terms <-> values --------------------------------------------------- *)
(* "-0" is the float negative zero: numerically zero *)
ValOf(t) == [n |-> t.n, e |-> t.e, tag |-> IF t.s \in {"-0", "+1", "-1"} THEN "" ELSE t.s,
             d |-> IF t.s = "+1" THEN 1 ELSE IF t.s = "-1" THEN -1 ELSE 0]
IntTerm(v) == LET w == NormV(v) IN T("int", IF w.d = 1 THEN "+1" ELSE IF w.d = -1 THEN "-1" ELSE "", w.n, w.e, <<>>, <<>>)
FltTerm(v) == LET w == NormV(v) IN T("flt", IF w.d = 1 THEN "+1" ELSE IF w.d = -1 THEN "-1" ELSE w.tag, w.n, w.e, <<>>, <<>>)
(* canonical (normalised) form of a numeric term; other terms unchanged      *)
NormNum(t) == IF t.k = "int" THEN IntTerm(ValOf(t))
              ELSE IF t.k = "flt" THEN FltTerm(ValOf(t)) ELSE t

=============================================================================
