------------------------------- MODULE Solver -------------------------------
(***************************************************************************)
(* The Suiron inference engine as a state machine shaped like the          *)
(* implementation (solution_node.rs, solution_node_and_or.rs, goal.rs,     *)
(* built_in_predicates.rs):                                                *)
(*                                                                         *)
(*  nodes   the SolutionNodes ever created: kind, goal, ss, parent, child, *)
(*          ruleIdx, nRules, head, tail, opTail, noBack, more              *)
(*  stack   the Rust call stack of next_solution() activations; a frame is *)
(*          [n, pc] with one pc label per resumption point                 *)
(*  ret     the Option<SubstitutionSet> the last activation returned       *)
(*  nextId  LOGIC_VAR_ID          stop   SUIRON_STOP_QUERY                 *)
(*  outbuf  text printed during the current request                        *)
(*  hist    what the caller observed for each request so far               *)
(*                                                                         *)
(* One action per critical section of the code.  The machine models the    *)
(* INTENDED behaviour; each known deviation of the code as first found is  *)
(* a named Bug_* switch (FALSE in every real configuration, TRUE only in   *)
(* the self-tests that show TLC finds the violation).                      *)
(***************************************************************************)
EXTENDS SLD

CONSTANTS Bug_ClauseLoopIgnoresCut,   \* the clause loop of a cut call tries later clauses
          Bug_OrTailAfterCut,         \* a cut disjunction still enters its later alternatives
          Bug_NotStaysArmed           \* a failed not(...) succeeds when asked again

VARIABLES prog, query, nodes, stack, ret, nextId, stop, outbuf, hist, phase, acts, steps,
          fireAt,    \* the query timer fires just before the fireAt-th count_rules() of this request (0: never)
          crSeen,    \* count_rules() calls made during this request
          lastAct    \* name of the action taken last (history; used by the trace specification)

svars == <<prog, query, nodes, stack, ret, nextId, stop, outbuf, hist, phase, acts, steps, fireAt, crSeen, lastAct>>

NoneR     == [some |-> FALSE, b |-> <<>>]
SomeR(b)  == [some |-> TRUE, b |-> b]

Node(kind, goal, ss, parent) ==
    [kind |-> kind, goal |-> goal, ss |-> ss, parent |-> parent, child |-> 0,
     ruleIdx |-> 0, nRules |-> 0, head |-> 0, tail |-> 0, opTail |-> <<>>,
     noBack |-> FALSE, more |-> TRUE]

(* make_solution_node(): returns <<nodes', id>>.  And/Or/Not create their head *)
(* node at once; a complex goal has NO parent (a cut stops there) and counts   *)
(* its clauses now -- zero when the stop flag is set.                           *)
RECURSIVE MakeNode(_, _, _, _, _, _)
MakeNode(P, ns, goal, ss, parent, stopped) ==
    LET id == Len(ns) + 1 IN
    CASE goal.g \in {"and", "or"} ->
            LET me == [Node(goal.g, goal, ss, parent) EXCEPT !.opTail = Tail(goal.gs)]
                r  == MakeNode(P, Append(ns, me), Head(goal.gs), ss, id, stopped)
            IN <<[r[1] EXCEPT ![id].head = r[2]], id>>
      [] goal.g \in {"not", "time"} ->
            LET me == Node(goal.g, goal, ss, parent)
                r  == MakeNode(P, Append(ns, me), goal.gs[1], ss, id, stopped)
            IN <<[r[1] EXCEPT ![id].head = r[2]], id>>
      [] goal.g = "call" ->
            <<Append(ns, [Node("cx", goal, ss, 0) EXCEPT
                             !.nRules = IF stopped THEN 0 ELSE Len(ClausesFor(Key(goal.t), P))]), id>>
      [] OTHER ->
            <<Append(ns, Node("bip", goal, ss, parent)), id>>

(* make_solution_node() calls count_rules() -- which reads the stop flag --    *)
(* exactly when the leftmost leaf of the goal is a call                         *)
RECURSIVE LeafCall(_)
LeafCall(g) == IF g.g = "call" THEN TRUE
               ELSE IF g.g \in {"and", "or", "not", "time"} THEN LeafCall(g.gs[1])
               ELSE FALSE

(* set_no_backtracking(): this node, every ancestor, and each ancestor's head  *)
RECURSIVE FlagUp(_, _)
FlagUp(ns, p) ==
    IF p = 0 THEN ns
    ELSE LET n1 == [ns EXCEPT ![p].noBack = TRUE]
             n2 == IF n1[p].head # 0 THEN [n1 EXCEPT ![n1[p].head].noBack = TRUE] ELSE n1
         IN FlagUp(n2, ns[p].parent)
SetNoBack(ns, id) == FlagUp([ns EXCEPT ![id].noBack = TRUE], ns[id].parent)

RECURSIVE Chain(_, _)
Chain(ns, p) == IF p = 0 THEN {} ELSE {p} \cup (IF ns[p].head # 0 THEN {ns[p].head} ELSE {}) \cup Chain(ns, ns[p].parent)

(* ---------------- frame helpers ---------------- *)
SRunning   == phase = "run" /\ stack # <<>>
STop       == stack[Len(stack)]
TN        == nodes[STop.n]
Popped    == SubSeq(stack, 1, Len(stack) - 1)
WithPc(pc) == [stack EXCEPT ![Len(stack)].pc = pc]
CallOn(id, retpc) == Append(WithPc(retpc), [n |-> id, pc |-> "enter"])
At(kind, pc) == SRunning /\ STop.pc = pc /\ TN.kind = kind

Tick(name) == /\ acts' = acts \cup {name}
              /\ steps' = steps + 1
              /\ lastAct' = name
Return(r, name) == /\ stack' = Popped /\ ret' = r /\ Tick(name)
Same1 == UNCHANGED <<prog, query, nextId, stop, hist, phase, fireAt, crSeen>>
Same2 == UNCHANGED <<prog, query, nextId, hist, phase, fireAt>>
(* the stop flag as the count_rules() of a new node for `goal` reads it: the     *)
(* (virtual) query timer may fire just before                                    *)
StopAt(goal)  == stop \/ (LeafCall(goal) /\ fireAt > 0 /\ crSeen + 1 = fireAt)
Counted(goal) == /\ crSeen' = IF LeafCall(goal) THEN crSeen + 1 ELSE crSeen
                 /\ stop' = StopAt(goal)

(* ---------------- request / reply ---------------- *)
Ask ==
    /\ phase = "idle"
    /\ phase' = "run"
    /\ stack' = <<[n |-> 1, pc |-> "enter"]>>
    /\ outbuf' = <<>>
    /\ ret' = NoneR
    /\ Tick("Ask")
    /\ UNCHANGED <<prog, query, nodes, nextId, stop, hist, fireAt, crSeen>>

Reply ==
    /\ phase = "run" /\ stack = <<>>
    /\ hist' = Append(hist, [out |-> outbuf, some |-> ret.some,
                             ans |-> IF ret.some THEN AnswerOf(query, ret.b) ELSE <<>>])
    /\ phase' = "idle"
    /\ Tick(IF ret.some THEN "Answer" ELSE "NoMore")
    /\ UNCHANGED <<prog, query, nodes, stack, ret, nextId, stop, outbuf, fireAt, crSeen>>

(* ---------------- next_solution(): entry ---------------- *)
EnterBlocked ==
    /\ SRunning /\ STop.pc = "enter" /\ TN.noBack
    /\ Return(NoneR, "EnterBlocked")
    /\ UNCHANGED <<nodes, outbuf>> /\ Same1

Entering(kind) == SRunning /\ STop.pc = "enter" /\ ~TN.noBack /\ TN.kind = kind

(* ---------------- And ---------------- *)
AndEnter ==
    /\ Entering("and")
    /\ stack' = IF TN.tail # 0 THEN CallOn(TN.tail, "A1") ELSE CallOn(TN.head, "A3")
    /\ Tick(IF TN.tail # 0 THEN "AndRetryTail" ELSE "AndCallHead")
    /\ UNCHANGED <<nodes, ret, outbuf>> /\ Same1

AndTailNone ==       \* the old tail is exhausted: ask the head for its next solution
    /\ At("and", "A1")
    /\ IF ret.some THEN Return(ret, "AndTailSome")
       ELSE /\ stack' = CallOn(TN.head, "A3") /\ ret' = ret /\ Tick("AndTailNone")
    /\ UNCHANGED <<nodes, outbuf>> /\ Same1

AndHeadRet ==
    /\ At("and", "A3")
    /\ IF ~ret.some
       THEN Return(NoneR, "AndHeadNone") /\ UNCHANGED <<nodes, stop, crSeen>>
       ELSE IF TN.opTail = <<>>
       THEN Return(ret, "AndHeadLast") /\ UNCHANGED <<nodes, stop, crSeen>>
       ELSE LET g == AndG(TN.opTail)
                r == MakeNode(prog, nodes, g, ret.b, STop.n, StopAt(g)) IN
            /\ nodes' = [r[1] EXCEPT ![STop.n].tail = r[2]]
            /\ stack' = CallOn(r[2], "A4")
            /\ ret' = ret
            /\ Counted(g)
            /\ Tick("AndHeadSome")
    /\ UNCHANGED outbuf /\ Same2

AndNewTailRet ==
    /\ At("and", "A4")
    /\ IF ret.some THEN Return(ret, "AndTailSome")
       ELSE /\ stack' = CallOn(TN.head, "A3") /\ ret' = ret /\ Tick("AndTailNone")
    /\ UNCHANGED <<nodes, outbuf>> /\ Same1

(* ---------------- Or ---------------- *)
OrEnter ==
    /\ Entering("or")
    /\ stack' = IF TN.tail # 0 THEN CallOn(TN.tail, "O1") ELSE CallOn(TN.head, "O2")
    /\ Tick(IF TN.tail # 0 THEN "OrRetryTail" ELSE "OrCallHead")
    /\ UNCHANGED <<nodes, ret, outbuf>> /\ Same1

OrTailRet ==
    /\ At("or", "O1")
    /\ Return(ret, "OrTailRet")
    /\ UNCHANGED <<nodes, outbuf>> /\ Same1

OrHeadRet ==
    /\ At("or", "O2")
    /\ IF ret.some THEN Return(ret, "OrHeadSome") /\ UNCHANGED <<nodes, stop, crSeen>>
       ELSE IF TN.opTail = <<>> THEN Return(NoneR, "OrHeadNoneLast") /\ UNCHANGED <<nodes, stop, crSeen>>
       ELSE IF TN.noBack /\ ~Bug_OrTailAfterCut
       THEN Return(NoneR, "OrHeadNoneCut") /\ UNCHANGED <<nodes, stop, crSeen>>     \* a cut disjunction has no later alternatives
       ELSE LET g == OrG(TN.opTail)
                r == MakeNode(prog, nodes, g, TN.ss, STop.n, StopAt(g)) IN
            /\ nodes' = [r[1] EXCEPT ![STop.n].tail = r[2]]
            /\ stack' = CallOn(r[2], "O1")
            /\ ret' = ret
            /\ Counted(g)
            /\ Tick("OrHeadNone")
    /\ UNCHANGED outbuf /\ Same2

(* ---------------- Not ---------------- *)
NotCall ==
    /\ Entering("not")
    /\ IF ~TN.more THEN Return(NoneR, "NotSpent")
       ELSE /\ stack' = CallOn(TN.head, "N1") /\ ret' = ret /\ Tick("NotCall")
    /\ UNCHANGED <<nodes, outbuf>> /\ Same1

NotResult ==         \* one-shot in both outcomes
    /\ At("not", "N1")
    /\ IF ret.some
       THEN /\ nodes' = IF Bug_NotStaysArmed THEN nodes ELSE [nodes EXCEPT ![STop.n].more = FALSE]
            /\ Return(NoneR, "NotFails")
       ELSE /\ nodes' = [nodes EXCEPT ![STop.n].more = FALSE]
            /\ Return(SomeR(TN.ss), "NotSucceeds")
    /\ UNCHANGED outbuf /\ Same1

(* ---------------- Time ---------------- *)
TimeCall ==          \* one-shot: the goal is asked once, whatever it answers
    /\ Entering("time")
    /\ IF ~TN.more THEN Return(NoneR, "TimeSpent") /\ UNCHANGED nodes
       ELSE /\ nodes' = [nodes EXCEPT ![STop.n].more = FALSE]
            /\ stack' = CallOn(TN.head, "T1") /\ ret' = ret /\ Tick("TimeCall")
    /\ UNCHANGED outbuf /\ Same1

TimeResult ==        \* print_elapsed(), then the goal's result is passed on
    /\ At("time", "T1")
    /\ outbuf' = Append(outbuf, TimeText)
    /\ Return(ret, IF ret.some THEN "TimeSome" ELSE "TimeNone")
    /\ UNCHANGED nodes /\ Same1

(* ---------------- complex goal: the clause loop ---------------- *)
CxEnter ==
    /\ Entering("cx")
    /\ IF TN.child # 0
       THEN stack' = CallOn(TN.child, "C1") /\ Tick("CxRetryChild")
       ELSE stack' = WithPc("C2") /\ Tick("CxFirst")
    /\ UNCHANGED <<nodes, ret, outbuf>> /\ Same1

CxChildRet ==
    /\ At("cx", "C1")
    /\ IF ret.some THEN Return(ret, "CxChildSome") /\ UNCHANGED nodes
       ELSE /\ nodes' = [nodes EXCEPT ![STop.n].child = 0]
            /\ stack' = WithPc("C2") /\ ret' = ret /\ Tick("CxChildNone")
    /\ UNCHANGED outbuf /\ Same1

CxClauses == ClausesFor(Key(TN.goal.t), prog)

CxTryClause ==
    /\ At("cx", "C2")
    /\ IF TN.noBack /\ ~Bug_ClauseLoopIgnoresCut
       THEN Return(NoneR, "CxCutStops") /\ UNCHANGED <<nodes, nextId, phase, stop, crSeen>>      \* a cut call tries no later clause
       ELSE IF TN.ruleIdx >= TN.nRules
       THEN Return(NoneR, "CxNoMoreClauses") /\ UNCHANGED <<nodes, nextId, phase, stop, crSeen>>
       ELSE LET rc == RenameClause(CxClauses[TN.ruleIdx + 1], nextId)
                u  == UnifyBig(rc.head, TN.goal.t, TN.ss)
                n1 == [nodes EXCEPT ![STop.n].ruleIdx = @ + 1]     \* `child` is NOT reset here: after a rule whose
                                                                    \* body failed it still points to that stale body node
            IN IF u.status \notin {"ok", "fail"}
               THEN /\ phase' = "outside" /\ UNCHANGED <<nodes, stack, ret, nextId, stop, crSeen>> /\ Tick("Outside")
               ELSE IF u.status = "fail"
               THEN /\ nodes' = n1 /\ nextId' = nextId            \* the fallback id is restored
                    /\ UNCHANGED <<stack, ret, phase, stop, crSeen>> /\ Tick("CxHeadFail")
               ELSE IF rc.body = NoGoal
               THEN /\ nodes' = n1 /\ nextId' = nextId + rc.k
                    /\ Return(SomeR(u.bind), "CxHeadOkFact") /\ UNCHANGED <<phase, stop, crSeen>>
               ELSE LET r == MakeNode(prog, n1, rc.body, u.bind, STop.n, StopAt(rc.body)) IN
                    /\ nodes' = [r[1] EXCEPT ![STop.n].child = r[2]]
                    /\ nextId' = nextId + rc.k
                    /\ stack' = CallOn(r[2], "C3") /\ ret' = ret /\ UNCHANGED phase
                    /\ Counted(rc.body)
                    /\ Tick("CxHeadOkRule")
    /\ UNCHANGED <<prog, query, hist, outbuf, fireAt>>

CxBodyRet ==
    /\ At("cx", "C3")
    /\ IF ret.some THEN Return(ret, "CxBodySome")
       ELSE /\ stack' = WithPc("C2") /\ ret' = ret /\ Tick("CxBodyNone")
    /\ UNCHANGED <<nodes, outbuf>> /\ Same1

(* ---------------- built-in predicates, cut ---------------- *)
BipRun ==
    /\ Entering("bip")
    /\ IF ~TN.more
       THEN Return(NoneR, "BipSpent") /\ UNCHANGED <<nodes, outbuf, phase>>
       ELSE LET n1 == [nodes EXCEPT ![STop.n].more = FALSE] IN
            IF TN.goal.f = "!"
            THEN /\ nodes' = SetNoBack(n1, STop.n)
                 /\ Return(SomeR(TN.ss), "Cut") /\ UNCHANGED <<outbuf, phase>>
            ELSE LET r == BipSem(TN.goal.f, TN.goal.a, TN.ss) IN
                 IF r.st = "out"
                 THEN /\ phase' = "outside" /\ UNCHANGED <<nodes, stack, ret, outbuf>> /\ Tick("Outside")
                 ELSE /\ nodes' = n1
                      /\ outbuf' = IF r.out # "" THEN Append(outbuf, r.out) ELSE outbuf
                      /\ Return(IF r.st = "ok" THEN SomeR(r.b) ELSE NoneR,
                                IF r.st = "ok" THEN "BipOk" ELSE "BipFail")
                      /\ UNCHANGED phase
    /\ UNCHANGED <<prog, query, nextId, stop, hist, fireAt, crSeen>>

SolverStep == \/ EnterBlocked
        \/ AndEnter \/ AndTailNone \/ AndHeadRet \/ AndNewTailRet
        \/ OrEnter \/ OrTailRet \/ OrHeadRet
        \/ NotCall \/ NotResult
        \/ TimeCall \/ TimeResult
        \/ CxEnter \/ CxChildRet \/ CxTryClause \/ CxBodyRet
        \/ BipRun

(* ---------------- a fresh query (make_query + make_base_node) ------------ *)
BaseNodes(P, q, stopped) ==
    <<[Node("cx", Call(QueryTerm(q)), <<>>, 0) EXCEPT
          !.nRules = IF stopped THEN 0 ELSE Len(ClausesFor(Key(q), P))]>>

(* ---------------- properties of the machine ---------------- *)
(* C02: a call whose clause body executed a cut resolves no further clause     *)
CutCommitsStep ==
    \A i \in DOMAIN nodes :
          (nodes[i].kind = "cx" /\ nodes[i].noBack) => nodes'[i].ruleIdx = nodes[i].ruleIdx
CutCommits == [][CutCommitsStep]_svars
(* C02: goals to the left of a cut are never re-tried: a flagged built-in or    *)
(* call never runs again, a flagged disjunction never opens a later alternative *)
NoRetryStep ==
    \A i \in DOMAIN nodes :
          nodes[i].noBack =>
             /\ nodes'[i].more = nodes[i].more
             /\ nodes'[i].ruleIdx = nodes[i].ruleIdx
             /\ (nodes[i].kind = "or" => nodes'[i].tail = nodes[i].tail)
NoRetryLeftOfCut == [][NoRetryStep]_svars
(* C02: a cut flags only nodes of its own call: the cut, its ancestors up to    *)
(* the call's node, and their head nodes                                        *)
CutLocalStep ==
    \A i \in DOMAIN nodes :
          (nodes'[i].noBack /\ ~nodes[i].noBack) =>
             /\ SRunning /\ TN.kind = "bip" /\ TN.goal.f = "!"
             /\ i \in {STop.n} \cup Chain(nodes, TN.parent)
CutIsLocal == [][CutLocalStep]_svars
(* C10: the id counter is above every id in use, so the next ids are fresh      *)
RECURSIVE IdsOfSeq(_)
IdsOfSeq(ts) == IF ts = <<>> THEN {} ELSE VarsOf(Head(ts)) \cup IdsOfSeq(Tail(ts))
IdsOfBind(b) == {i \in DOMAIN b : b[i] # NoT} \cup UNION {VarsOf(b[i]) : i \in DOMAIN b}
FreshIsFresh ==
    \A i \in DOMAIN nodes :
        \A id \in IdsOfSeq(GoalTerms(nodes[i].goal)) \cup IdsOfBind(nodes[i].ss) : id <= nextId
(* C08 on the engine: no binding vector of any node is cyclic                    *)
NodesAcyclic == \A i \in DOMAIN nodes : Acyclic(nodes[i].ss)

=============================================================================
