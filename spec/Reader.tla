------------------------------- MODULE Reader -------------------------------
(***************************************************************************)
(* The rule-file reader (rule_reader.rs) as a state machine (C21).         *)
(*                                                                         *)
(* A source text is modelled at the level the property talks about: a rule *)
(* is a sequence of PIECES; a piece ends at a documented continuation      *)
(* character (`-` `,` `;` `=`) or, for the last piece, at the rule's final *)
(* period.  A file is a sequence of lines; a line holds pieces, possibly   *)
(* indentation, possibly a trailing comment (`#`, `%`, `//`), or nothing.  *)
(*                                                                         *)
(*   ReadLine   strip the comment, trim, skip blank lines, check the last  *)
(*              character, append to the long line (separated by a space)  *)
(*   Separate   cut the long line into rules at the rule-final periods     *)
(* The reader's result must be the rules the file was laid out from.       *)
(***************************************************************************)
EXTENDS Naturals, Sequences, TLC

(* piece: [tx |-> text, d0 |-> at bracket depth 0 after it, end |-> last piece of its rule] *)
(* line : [ps |-> <<pieces>>, indent |-> "" | "  " | "\t", comment |-> "" | "#" | "%" | "//"] *)

VARIABLES lines, pos, long, rules, rstate

rvars == <<lines, pos, long, rules, rstate>>

RInit(ls) == /\ lines = ls /\ pos = 1 /\ long = <<>> /\ rules = <<>> /\ rstate = "reading"

(* a comment is only legal outside parentheses and brackets                    *)
LegalLine(l) == l.comment = "" \/ l.ps = <<>> \/ l.ps[Len(l.ps)].d0

ReadLine ==
    /\ rstate = "reading" /\ pos <= Len(lines)
    /\ LET l == lines[pos] IN
       /\ long' = long \o l.ps            \* comment stripped, blanks skipped, pieces joined
       /\ pos' = pos + 1
    /\ UNCHANGED <<lines, rules, rstate>>

RECURSIVE Cut(_, _)
Cut(ps, cur) ==
    IF ps = <<>> THEN (IF cur = <<>> THEN <<>> ELSE <<cur>>)
    ELSE IF Head(ps).end THEN <<Append(cur, Head(ps))>> \o Cut(Tail(ps), <<>>)
    ELSE Cut(Tail(ps), Append(cur, Head(ps)))

Separate ==
    /\ rstate = "reading" /\ pos > Len(lines)
    /\ rules' = Cut(long, <<>>)
    /\ rstate' = "done"
    /\ UNCHANGED <<lines, pos, long>>

RNext == ReadLine \/ Separate

=============================================================================
