----------------------------- MODULE MC_Solver -----------------------------
(***************************************************************************)
(* Bounded-exhaustive model checking of the solver machine (Solver.tla)    *)
(* against the reference semantics (SLD.tla), per slice of program shapes. *)
(* One behaviour = one (program, query): the query is asked until "no more"*)
(* and then ReAsks more times.  TLC checks Refines & co. in every state    *)
(* and emits one CASE per behaviour for the replay against the real crate. *)
(***************************************************************************)
EXTENDS Solver, Json

CONSTANTS Tier, Slice, Depth, ReAsks, MaxSteps

VARIABLE expect         \* what the reference semantics says each request observes

vars == <<prog, query, nodes, stack, ret, nextId, stop, outbuf, hist, phase, acts, steps, fireAt, crSeen, lastAct, expect>>

Thorough == Tier = "thorough"

(* ------------------------------ vocabulary ------------------------------ *)
V(n) == Var(0, n)
X == V("$X")   Y == V("$Y")   Z == V("$Z")   W == V("$W")
a == Atom("a") b == Atom("b") c == Atom("c")
p1(t) == Cx("p", <<t>>)        q1(t) == Cx("q", <<t>>)    r1(t) == Cx("r", <<t>>)
s2(t, u) == Cx("s", <<t, u>>)  t1(t) == Cx("t", <<t>>)    c1(t) == Cx("c", <<t>>)
pr(t) == Bip("print", <<t>>)

AtomCodesDef == [s \in {"a", "b", "c"} |-> CASE s = "a" -> <<97>> [] s = "b" -> <<98>> [] s = "c" -> <<99>>]
FmtPiecesDef == [s \in {"<%s>"} |-> <<"<", ">">>]

BaseFacts == <<Fact(q1(a)), Fact(q1(b)), Fact(r1(b)), Fact(r1(c)), Fact(s2(a, b)), Fact(s2(b, c))>>

(* ------------------------------ slice: and / or ------------------------- *)
LitsA == {Call(q1(X)), Call(r1(X)), Call(q1(Y)), Call(s2(X, Y)), UnifyG(X, b), UnifyG(X, Y), Call(t1(X)),
          Bip("equal", <<X, b>>), Call(s2(Y, X))}
LitsB == {Call(q1(X)), Call(r1(X)), Call(s2(X, Y)), UnifyG(X, b), Call(r1(Y))}
LitsC == {Call(q1(X)), Call(r1(X)), UnifyG(X, c)}
BodiesAndOr ==
       LitsA
  \cup {AndG(<<l1, l2>>) : l1 \in LitsA, l2 \in LitsA}
  \cup {OrG(<<l1, l2>>) : l1 \in LitsA, l2 \in LitsB}
  \cup {AndG(<<l1, OrG(<<l2, l3>>)>>) : l1 \in LitsB, l2 \in LitsC, l3 \in LitsB}
  \cup {AndG(<<OrG(<<l1, l2>>), l3>>) : l1 \in LitsC, l2 \in LitsB, l3 \in LitsB}
  \cup {OrG(<<AndG(<<l1, l2>>), l3>>) : l1 \in LitsB, l2 \in LitsB, l3 \in LitsC}
  \cup {OrG(<<l1, l2, l3>>) : l1 \in LitsC, l2 \in LitsC, l3 \in LitsC}
  \cup {AndG(<<l1, l2, l3>>) : l1 \in LitsB, l2 \in LitsC, l3 \in LitsB}
BodiesSmall ==
       {Call(q1(X)), Call(r1(X)), UnifyG(X, b), Bip("equal", <<X, b>>), Bip("less_than", <<X, b>>)}
  \cup {AndG(<<l1, l2>>) : l1 \in LitsC, l2 \in LitsC}
  \cup {OrG(<<l1, l2>>) : l1 \in LitsC, l2 \in LitsC}
HeadsP == {p1(X), p1(b), p1(Cx("f", <<X>>))}
ClausesAndOr1 == {Clause(h, bd) : h \in {p1(X)}, bd \in BodiesAndOr}
                 \cup {Clause(h, bd) : h \in {p1(b), p1(Cx("f", <<X>>))}, bd \in BodiesSmall}
ClausesAndOr2 == {Clause(p1(X), bd) : bd \in BodiesSmall} \cup {Fact(p1(a)), Fact(p1(X)), Fact(p1(Cx("f", <<b>>)))}
QueriesP == {p1(Z), p1(b), p1(Cx("f", <<Z>>))}
PQ(pg, qs) == {[prog |-> pg, query |-> qq] : qq \in qs}
PQS(pgs, qs) == {[prog |-> pg, query |-> qq] : pg \in pgs, qq \in qs}
ProgsAndOr ==
       PQS({BaseFacts \o <<c1_>> : c1_ \in ClausesAndOr1}, QueriesP)
  \cup PQS({BaseFacts \o <<c1_, c2_>> : c1_ \in ClausesAndOr2, c2_ \in ClausesAndOr2}, {p1(Z), p1(a), p1(c)})
  \cup (IF Thorough
        THEN PQS({BaseFacts \o <<c1_, c2_, c3_>> :
                       c1_ \in ClausesAndOr2, c2_ \in {Fact(p1(a)), Clause(p1(X), Call(r1(X))), Clause(p1(X), OrG(<<Call(q1(X)), UnifyG(X, c)>>))},
                       c3_ \in ClausesAndOr2}, {p1(Z)})
        ELSE {})

(* ------------------------------ slice: cut ------------------------------ *)
(* `!` at every position of conjunctions and disjunctions, followed by        *)
(* succeeding / failing / multi-answer goals, in called predicates, with       *)
(* later clauses that succeed, fail and print                                  *)
(* k($X) :- q($X).  -- a goal whose answers come from the LAST (only) clause of its predicate, a rule whose body *)
(* has further answers: after a cut it must not be re-tried either                                             *)
k1(t) == Cx("k", <<t>>)
CutLits == {Call(q1(X)), Call(r1(X)), CutG, FailG, UnifyG(X, b), pr(X), Call(c1(X)), Call(k1(X))}
CutLitsS == {Call(q1(X)), Call(r1(X)), CutG, FailG, pr(X), Call(k1(X))}
RECURSIVE HasCutG(_)
HasCutG(g) == g = CutG \/ (g.g \in {"and", "or"} /\ \E i \in DOMAIN g.gs : HasCutG(g.gs[i]))
CutBodiesAll ==
       {AndG(<<l1, l2>>) : l1 \in CutLits, l2 \in CutLits}
  \cup {AndG(<<l1, l2, l3>>) : l1 \in CutLitsS, l2 \in CutLits, l3 \in CutLitsS}
  \cup {OrG(<<l1, l2>>) : l1 \in CutLits, l2 \in CutLitsS}
  \cup {OrG(<<AndG(<<l1, l2>>), l3>>) : l1 \in CutLitsS, l2 \in CutLitsS, l3 \in CutLitsS}
  \cup {OrG(<<l3, AndG(<<l1, l2>>)>>) : l1 \in CutLitsS, l2 \in CutLitsS, l3 \in CutLitsS}
  \cup {AndG(<<l1, OrG(<<l2, l3>>)>>) : l1 \in CutLitsS, l2 \in CutLitsS, l3 \in CutLitsS}
  \cup {AndG(<<OrG(<<l1, l2>>), l3>>) : l1 \in CutLitsS, l2 \in CutLitsS, l3 \in CutLitsS}
  (* a conjunction nested in a conjunction: the cut freezes the nested one as a whole *)
  \cup {AndG(<<AndG(<<l1, l2>>), l3>>) : l1 \in CutLitsS, l2 \in CutLitsS, l3 \in CutLitsS}
  \cup {AndG(<<l3, AndG(<<l1, l2>>)>>) : l1 \in CutLitsS, l2 \in CutLitsS, l3 \in {Call(q1(X)), pr(X)}}
  \cup {AndG(<<OrG(<<AndG(<<l1, l2>>), l3>>), l4>>) : l1 \in {CutG, Call(q1(X))}, l2 \in {CutG, Call(r1(X)), Call(q1(X))}, l3 \in {Call(r1(X))}, l4 \in {Call(r1(X)), Call(q1(X)), FailG}}
  (* three alternatives: the cut in the middle or the last one, after an alternative that failed or answered *)
  \cup {OrG(<<l1, AndG(<<l2, l3>>), l4>>) : l1 \in {Call(q1(X)), FailG, UnifyG(X, b)}, l2 \in {CutG, Call(r1(X))}, l3 \in {CutG, FailG, Call(q1(X))}, l4 \in {Call(r1(X)), pr(X)}}
  \cup {OrG(<<l1, l2, l3>>) : l1 \in CutLitsS, l2 \in CutLitsS, l3 \in {CutG, Call(r1(X)), FailG}}
  (* the cut in a LATER alternative of a disjunction to the right of a goal with several answers, reached only when the *)
  (* conjunction is entered again (the earlier alternative answered first)                                              *)
  \cup {AndG(<<l1, OrG(<<l2, AndG(<<l3, l4>>)>>)>>) : l1 \in {Call(q1(X)), Call(k1(X))}, l2 \in {pr(X), UnifyG(Y, b), Call(r1(Y))},
                                                       l3 \in {CutG, Call(r1(X))}, l4 \in {CutG, FailG, Call(q1(X))}}
  \cup {AndG(<<Call(q1(X)), OrG(<<UnifyG(Y, a), AndG(<<CutG, UnifyG(Y, b)>>)>>), l5>>) : l5 \in {Bip("equal", <<Y, a>>), Bip("equal", <<Y, b>>), Call(r1(X))}}
  \cup {CutG}
CutBodies == {bd \in CutBodiesAll : HasCutG(bd) \/ (bd.g = "and" /\ \E i \in DOMAIN bd.gs : bd.gs[i] = Call(c1(X)))}
CalledCut == <<Clause(c1(X), AndG(<<Call(q1(X)), CutG>>)), Fact(c1(c)), Clause(k1(X), Call(q1(X)))>>
CutSecond == {Fact(p1(c)), Clause(p1(X), Call(r1(X))), Clause(p1(X), AndG(<<pr(Atom("second")), FailG>>)),
              Clause(p1(X), AndG(<<Call(r1(X)), CutG>>))}
CutFirst  == {Fact(p1(a)), Clause(p1(X), Call(q1(X)))}
ProgsCut ==
       PQS({BaseFacts \o CalledCut \o <<Clause(p1(X), bd), c2_>> : bd \in CutBodies, c2_ \in CutSecond}, {p1(Z)})
  \cup PQS({BaseFacts \o CalledCut \o <<c0_, Clause(p1(X), bd), Fact(p1(c))>> :
                 c0_ \in CutFirst, bd \in (IF Thorough THEN CutBodies ELSE {bd2 \in CutBodies : bd2.g = "and" /\ Len(bd2.gs) = 2})}, {p1(Z), p1(b)})
  (* the caller of a cutting call is not affected: w($X) :- p($X) ; w(c). *)
  \cup PQS({BaseFacts \o CalledCut \o <<Clause(p1(X), bd), Fact(p1(c)),
                   Clause(Cx("w", <<X>>), AndG(<<Call(q1(Y)), Call(p1(X))>>)), Fact(Cx("w", <<c>>))>> :
                 bd \in {bd2 \in CutBodies : bd2.g = "and" /\ Len(bd2.gs) = 2}}, {Cx("w", <<Z>>)})

(* ------------------------------ slice: not ------------------------------ *)
NotInner == {Call(q1(X)), Call(r1(X)), Call(t1(X)), UnifyG(X, b), UnifyG(X, Y), Bip("equal", <<X, b>>),
             AndG(<<Call(q1(X)), Call(r1(X))>>), OrG(<<Call(q1(X)), Call(r1(X))>>), Bip("less_than", <<X, b>>),
             AndG(<<Call(q1(Y)), UnifyG(Y, X)>>), Call(q1(Y)), AndG(<<pr(X), Call(r1(X))>>), NotG(Call(q1(X))),
             (* a conjunction whose first goal succeeds (binding an inner variable) but which fails as a whole *)
             AndG(<<Call(q1(X)), Call(t1(X))>>), AndG(<<Call(q1(X)), FailG>>), AndG(<<Call(q1(Y)), Call(s2(Y, Y))>>),
             AndG(<<UnifyG(X, b), FailG>>), OrG(<<AndG(<<Call(q1(X)), FailG>>), Call(t1(X))>>),
             (* a test AFTER the goal that instantiates its operand (the operand is only aliased when the not is reached) *)
             AndG(<<Call(q1(X)), Bip("equal", <<X, b>>)>>), AndG(<<Call(q1(X)), Bip("less_than", <<X, b>>)>>),
             AndG(<<UnifyG(Y, X), Call(r1(Y)), Bip("greater_than", <<X, b>>)>>),
             (* a conjunction whose FIRST goal is a conjunction: the only answer needs a later answer of the inner tail *)
             AndG(<<AndG(<<Call(q1(X)), Call(r1(Y))>>), Bip("equal", <<Y, c>>)>>),
             AndG(<<AndG(<<Call(q1(Y)), Call(r1(X))>>), Bip("equal", <<X, c>>)>>)}
NotBodies ==
       {NotG(g) : g \in NotInner}
  \cup {AndG(<<l, NotG(g)>>) : l \in {Call(q1(X)), Call(r1(X)), UnifyG(X, c)}, g \in NotInner}
  \cup {AndG(<<NotG(g), l>>) : l \in {Call(q1(X)), Call(r1(X))}, g \in NotInner}
  \cup {OrG(<<NotG(g), l>>) : l \in {Call(q1(X))}, g \in NotInner}
  \cup {AndG(<<l, NotG(g), pr(X)>>) : l \in {Call(q1(X)), Call(r1(X))}, g \in {Call(r1(X)), Call(q1(Y)), UnifyG(X, a)}}
  (* a variable that first occurs under a not, a new variable introduced after it, and the first one again under a second not *)
  \cup {AndG(<<NotG(Call(t1(Y))), Call(s2(X, W)), NotG(Call(q1(Y)))>>), AndG(<<NotG(Call(t1(Y))), Call(s2(X, W)), NotG(Call(t1(Y))), UnifyG(Y, W)>>),
        AndG(<<NotG(Call(s2(Y, Y))), Call(s2(X, W)), NotG(Call(s2(W, Y)))>>)}
(* facts whose first head argument is $_ or a variable, before / after facts with constants; not(...) over calls *)
(* whose first argument is a constant or bound when the not is reached                                          *)
w2(t, u) == Cx("w", <<t, u>>)
AnonFacts == <<Fact(w2(Anon, a)), Fact(w2(b, b)), Fact(w2(c, c)), Fact(w2(X, Atom("d")))>>
NotAnonBodies == {NotG(Call(w2(X, a))), NotG(Call(w2(X, Atom("d")))), NotG(Call(w2(a, X))), NotG(Call(w2(b, a))), NotG(Call(w2(a, a))),
                  AndG(<<Call(q1(X)), NotG(Call(w2(X, a)))>>), AndG(<<Call(r1(X)), NotG(Call(w2(X, Atom("d")))), pr(X)>>),
                  AndG(<<UnifyG(Y, X), NotG(Call(w2(Y, a)))>>), NotG(Call(w2(X, Y)))}
(* ------------------------------ slice: anon ($_ in the search, C09) ------- *)
(* heads with $_ against goals with constants, goals with $_ against heads with constants / variables / $_, as query  *)
(* and in rule bodies, before and after goals that bind; $_ never binds and never blocks                               *)
AnonFacts2 == AnonFacts \o <<Fact(Cx("likes", <<Anon, Atom("pizza")>>)), Fact(Cx("seen", <<Anon>>)), Fact(Cx("both", <<Anon, Anon>>))>>
AnonGoals == {Call(w2(b, a)), Call(w2(a, a)), Call(w2(Anon, b)), Call(w2(Anon, Atom("d"))), Call(w2(c, Anon)), Call(w2(Anon, Anon)),
              Call(s2(Anon, Anon)), Call(s2(a, Anon)), Call(s2(Anon, c)), Call(Cx("likes", <<a, Atom("pizza")>>)), Call(Cx("likes", <<Anon, Atom("pizza")>>)),
              Call(Cx("likes", <<a, b>>)), Call(Cx("seen", <<a>>)), Call(Cx("seen", <<Anon>>)), Call(Cx("both", <<a, IntT(7)>>)), Call(q1(Anon)),
              Call(w2(X, Anon)), Call(s2(X, Anon)), Call(Cx("seen", <<X>>))}
AnonBodies2 == AnonGoals \cup {AndG(<<Call(q1(X)), g>>) : g \in AnonGoals} \cup {AndG(<<g, Call(r1(X))>>) : g \in AnonGoals}
ProgsAnon ==
       PQS({BaseFacts \o AnonFacts2 \o <<Clause(p1(X), bd)>> : bd \in AnonBodies2}, {p1(Z), p1(b)})
  \cup PQ(BaseFacts \o AnonFacts2, {w2(Anon, a), w2(b, Anon), w2(Anon, Anon), s2(a, Anon), s2(Anon, Anon), Cx("likes", <<a, Atom("pizza")>>),
                                    Cx("likes", <<Anon, Atom("pizza")>>), Cx("seen", <<Anon>>), Cx("both", <<a, b>>), q1(Anon), w2(Z, Anon), w2(Anon, Z)})

ProgsNot ==
       PQS({BaseFacts \o <<Clause(p1(X), bd)>> : bd \in NotBodies}, {p1(Z), p1(a), p1(c)})
  \cup PQS({BaseFacts \o AnonFacts \o <<Clause(p1(X), bd)>> : bd \in NotAnonBodies}, {p1(Z), p1(a), p1(b), p1(c)})
  \cup PQS({BaseFacts \o <<Clause(p1(X), bd), c2_>> :
                 bd \in NotBodies, c2_ \in {Fact(p1(c)), Clause(p1(X), NotG(Call(q1(X))))}}, {p1(Z)})

(* ------------------------------ slice: print ---------------------------- *)
PrLits == {pr(X), pr(a), Bip("print", <<Atom("<%s>"), X>>), Bip("print", <<X, Atom("-"), Y>>), NlG,
           Bip("print_list", <<Lst(<<X, b>>)>>), Call(q1(X)), Call(r1(X)), Call(q1(Y)), FailG}
PrLitsS == {pr(X), NlG, Call(q1(X)), Call(r1(X)), FailG, Bip("print", <<Atom("<%s>"), X>>)}
PrintBodies ==
       {AndG(<<l1, l2>>) : l1 \in PrLits, l2 \in PrLits}
  \cup {AndG(<<l1, l2, l3>>) : l1 \in PrLitsS, l2 \in PrLitsS, l3 \in PrLitsS}
  \cup {OrG(<<AndG(<<l1, l2>>), l3>>) : l1 \in PrLitsS, l2 \in PrLitsS, l3 \in PrLitsS}
  \cup {AndG(<<l1, NotG(AndG(<<l2, l3>>))>>) : l1 \in {Call(q1(X))}, l2 \in PrLitsS, l3 \in PrLitsS}
IsPrint(g) == g.g = "bip" /\ g.f \in {"print", "print_list", "nl"}
PrintsSome(bd) == \E i \in DOMAIN bd.gs : IsPrint(bd.gs[i]) \/
                     (bd.gs[i].g \in {"and", "not"} /\ \E j \in DOMAIN bd.gs[i].gs :
                         IsPrint(bd.gs[i].gs[j]) \/ (bd.gs[i].gs[j].g = "and" /\ \E k \in DOMAIN bd.gs[i].gs[j].gs : IsPrint(bd.gs[i].gs[j].gs[k])))
DupFacts == <<Fact(q1(a)), Fact(Cx("u", <<>>)), Fact(Cx("u", <<>>))>>      \* q(a) twice, u() twice
PrintDupBodies == {AndG(<<Call(q1(a)), pr(X), FailG>>), AndG(<<Call(q1(a)), pr(a), FailG>>), AndG(<<Call(Cx("u", <<>>)), pr(b), FailG>>),
                   AndG(<<OrG(<<Call(q1(a)), Call(r1(b))>>), pr(c), FailG>>), AndG(<<Call(q1(a)), pr(a), Call(r1(X))>>),
                   AndG(<<Call(Cx("u", <<>>)), NlG, Call(t1(X))>>), AndG(<<UnifyG(X, X), Call(q1(a)), pr(a), FailG>>)}
ProgsPrint ==
    PQS({BaseFacts \o DupFacts \o <<Clause(p1(X), bd), Clause(p1(X), pr(Atom("!")))>> : bd \in PrintDupBodies}, {p1(Z), p1(b)})
    \cup
    PQS({BaseFacts \o <<Clause(p1(X), bd), Clause(p1(X), AndG(<<Call(r1(X)), pr(Atom("!"))>>))>> :
              bd \in {bd2 \in PrintBodies : PrintsSome(bd2)}}, {p1(Z)})

(* ------------------------------ slice: time ----------------------------- *)
(* time(G): G is asked once; the elapsed time is written; a time(...) to the   *)
(* right of a multi-answer goal runs again for every answer of that goal       *)
TimeInner == {Call(q1(X)), Call(r1(X)), Call(t1(X)), UnifyG(X, b), FailG, AndG(<<Call(q1(X)), Call(r1(X))>>),
              OrG(<<Call(q1(X)), Call(r1(X))>>), AndG(<<pr(X), Call(r1(X))>>), AndG(<<Call(q1(X)), pr(X), FailG>>), NotG(Call(q1(X)))}
TimeBodies ==
       {TimeG(g) : g \in TimeInner}
  \cup {AndG(<<l, TimeG(g)>>) : l \in {Call(q1(X)), Call(r1(Y)), UnifyG(X, c)}, g \in TimeInner}
  \cup {AndG(<<TimeG(g), l>>) : l \in {Call(r1(X)), pr(X), FailG}, g \in TimeInner}
  \cup {OrG(<<TimeG(g), l>>) : l \in {Call(r1(X))}, g \in TimeInner}
  \cup {NotG(TimeG(g)) : g \in {Call(q1(X)), FailG}}
  \cup {TimeG(TimeG(g)) : g \in {Call(q1(X)), FailG}}
ProgsTime ==
       PQS({BaseFacts \o <<Clause(p1(X), bd)>> : bd \in TimeBodies}, {p1(Z), p1(a), p1(c)})
  \cup PQS({BaseFacts \o <<Clause(p1(X), bd), Fact(p1(c))>> : bd \in TimeBodies}, {p1(Z)})

(* ------------------------------ slice: lists / recursion ---------------- *)
H == V("$H")  T_ == V("$T")  L == V("$L")  N == V("$N")  M == V("$M")  R_ == V("$R")
Mem(x, l) == Cx("mem", <<x, l>>)
App(x, y, z) == Cx("app", <<x, y, z>>)
LenP(l, n) == Cx("len", <<l, n>>)
ListProg ==
  << Fact(Mem(X, LstT(<<X>>, V("$_T")))),
     Clause(Mem(X, LstT(<<V("$_H")>>, T_)), Call(Mem(X, T_))),
     Fact(App(EmptyList, L, L)),
     Clause(App(LstT(<<H>>, T_), L, LstT(<<H>>, R_)), Call(App(T_, L, R_))),
     Fact(LenP(EmptyList, IntT(0))),
     Clause(LenP(LstT(<<V("$_H")>>, T_), N), AndG(<<Call(LenP(T_, M)), UnifyG(N, Fn("add", <<M, IntT(1)>>))>>)),
     Clause(Cx("rev", <<EmptyList, L, L>>), NoGoal),
     Clause(Cx("rev", <<LstT(<<H>>, T_), L, R_>>), Call(Cx("rev", <<T_, LstT(<<H>>, L), R_>>))),
     Clause(Cx("last", <<Lst(<<X>>), X>>), NoGoal),
     Clause(Cx("last", <<LstT(<<V("$_H")>>, T_), X>>), Call(Cx("last", <<T_, X>>))),
     Clause(Cx("both", <<X, L, R_>>), AndG(<<Call(Mem(X, L)), Call(Mem(X, R_))>>)),
     Clause(Cx("cnt", <<L, N>>), Bip("count", <<L, N>>)),
     Clause(Cx("inc", <<L, R_>>), Bip("include", <<Cx("f", <<Anon>>), L, R_>>)),
     Clause(Cx("apb", <<L, R_>>), Bip("append", <<L, Atom("z"), R_>>)),
     (* list arguments of a built-in in a clause body which hold a variable only inside a NESTED list (renamed with the clause) *)
     Clause(Cx("nest", <<X, R_>>), Bip("append", <<Lst(<<a, Lst(<<X>>)>>), c, R_>>)),
     Clause(Cx("nest2", <<T_, R_>>), Bip("append", <<Lst(<<a, LstT(<<b>>, T_)>>), c, R_>>)),
     Clause(Cx("nest3", <<X, N>>), AndG(<<UnifyG(L, Lst(<<a, Lst(<<X, b>>)>>)), Bip("count", <<L, N>>), Call(Mem(Lst(<<c, b>>), L))>>)),
     (* a goal whose argument is a list with a tail variable against a head of the same shape *)
     Clause(Cx("wrap", <<T_>>), Call(Cx("keep", <<LstT(<<a>>, T_)>>))),
     Clause(Cx("keep", <<LstT(<<H>>, T_)>>), Call(Cx("item", <<T_>>))),
     Fact(Cx("item", <<Lst(<<b, c>>)>>)), Fact(Cx("item", <<Lst(<<Atom("d")>>)>>)) >>
L1 == Lst(<<a, b, c>>)    L2 == Lst(<<b, a>>)   L3 == Lst(<<Cx("f", <<a>>), b, Cx("f", <<c>>)>>)
ListQueries ==
  { Mem(Z, L1), Mem(b, L1), Mem(Z, EmptyList), Mem(a, LstT(<<Z>>, W)), Mem(Cx("f", <<Z>>), L3),
    App(L2, L1, Z), App(Z, W, L2), App(Z, Lst(<<a>>), L2), App(LstT(<<a>>, Z), W, L1), App(Z, W, EmptyList),
    LenP(L1, Z), LenP(EmptyList, Z), LenP(LstT(<<a, b>>, EmptyList), Z),
    Cx("rev", <<L1, EmptyList, Z>>), Cx("rev", <<EmptyList, EmptyList, Z>>),
    Cx("last", <<L1, Z>>), Cx("last", <<EmptyList, Z>>), Cx("last", <<Lst(<<Lst(<<a>>)>>), Z>>),
    Cx("both", <<Z, L1, L2>>), Cx("both", <<Z, L1, Lst(<<Z>>)>>),
    Cx("cnt", <<L1, Z>>), Cx("cnt", <<LstT(<<a>>, Anon), Z>>), Cx("inc", <<L3, Z>>), Cx("apb", <<L2, Z>>),
    Cx("nest", <<IntT(7), Z>>), Cx("nest", <<W, Z>>), Cx("nest2", <<L2, Z>>), Cx("nest3", <<c, Z>>),
    (* a goal with an OPEN list against heads with closed lists of several lengths *)
    Cx("item", <<LstT(<<b>>, Z)>>), Cx("item", <<LstT(<<Z>>, Anon)>>), Cx("item", <<LstT(<<Z, W>>, V("$T"))>>), Cx("item", <<LstT(<<Z>>, W)>>),
    Cx("apb", <<Lst(<<a, Lst(<<b>>)>>), Z>>), Mem(Lst(<<Z>>), Lst(<<Lst(<<a>>), b, Lst(<<c>>), EmptyList>>)),
    Mem(EmptyList, Lst(<<Lst(<<a>>), EmptyList>>)), App(Lst(<<EmptyList>>), Lst(<<EmptyList>>), Z),
    Cx("wrap", <<Z>>), Cx("wrap", <<Lst(<<Atom("x")>>)>>), Cx("wrap", <<T_>>), Cx("keep", <<LstT(<<Z>>, T_)>>) }
ProgsLists == PQ(ListProg, ListQueries)

(* ------------------------------ slice: deep recursion -------------------- *)
(* an argument handed down unchanged through 60-100 levels (a chain of that many variable  *)
(* bindings), used by a comparison / arithmetic / unification at the bottom                  *)
I_ == V("$I")  Mx == V("$Max")  J_ == V("$J")  K_ == V("$K")  K2 == V("$K2")
CountTo(i, m, r) == Cx("count_to", <<i, m, r>>)
DeepProg ==
  << Clause(CountTo(I_, Mx, I_), Bip("greater_than_or_equal", <<I_, Mx>>)),
     Clause(CountTo(I_, Mx, R_), AndG(<<Bip("less_than", <<I_, Mx>>), UnifyG(J_, Fn("add", <<I_, IntT(1)>>)), Call(CountTo(J_, Mx, R_))>>)),
     Fact(Cx("keep", <<IntT(0), X, X>>)),
     Clause(Cx("keep", <<N, X, R_>>), AndG(<<Bip("greater_than", <<N, IntT(0)>>), UnifyG(M, Fn("subtract", <<N, IntT(1)>>)), Call(Cx("keep", <<M, X, R_>>))>>)),
     Fact(Cx("same", <<IntT(0), X>>)),
     Clause(Cx("same", <<N, X>>), AndG(<<Bip("greater_than", <<N, IntT(0)>>), UnifyG(M, Fn("subtract", <<N, IntT(1)>>)), Call(Cx("same", <<M, X>>)),
                                        Bip("equal", <<X, a>>)>>)) >>
DeepQueries == {CountTo(IntT(0), IntT(n), Z) : n \in {3, 40, 62, 63, 64, 65, 90}} \cup {CountTo(IntT(5), IntT(2), Z)}
               \cup {Cx("keep", <<IntT(n), a, Z>>) : n \in {2, 63, 70}} \cup {Cx("keep", <<IntT(66), Z, W>>)}
               (* both chains of bindings lead to the SAME variable: at the bottom two variables are unified which are aliased  *)
               (* through 60-70 links already                                                                                  *)
               \cup {Cx("keep", <<IntT(n), Z, Z>>) : n \in {3, 60, 64, 70}}
               \cup {Cx("same", <<IntT(n), a>>) : n \in {1, 64, 80}} \cup {Cx("same", <<IntT(70), b>>)}
ProgsDeep == PQ(DeepProg, DeepQueries)

(* ------------------------------ slice: aliasing / names ----------------- *)
(* query variable names reused inside rules, all rules sharing names, var-var   *)
(* aliasing through heads                                                       *)
AliasClauses ==
  { Clause(p1(Z), Call(q1(Z))), Clause(p1(X), Call(q1(X))),      \* (the same rule under two names: two clauses all the same)
    Clause(p1(Z), AndG(<<Call(q1(X)), UnifyG(Z, X)>>)),
    Clause(Cx("e", <<X, X>>), NoGoal), Clause(Cx("e", <<X, Y>>), UnifyG(X, Y)),
    Clause(Cx("e", <<X, Y>>), AndG(<<UnifyG(X, Y), UnifyG(Y, X)>>)),
    Clause(Cx("e", <<X, Y>>), AndG(<<UnifyG(X, Z), UnifyG(Y, Z)>>)),
    Clause(Cx("e", <<Z, X>>), AndG(<<UnifyG(Z, Y), UnifyG(Y, X), Call(q1(Y))>>)),
    Clause(Cx("e", <<X, Y>>), AndG(<<Call(Cx("e2", <<Y, X>>))>>)) }
AliasExtra == <<Clause(Cx("e2", <<X, Y>>), UnifyG(X, Y)), Fact(Cx("e2", <<a, b>>))>>
AliasQueries == {Cx("e", <<Z, W>>), Cx("e", <<Z, Z>>), Cx("e", <<Z, a>>), Cx("e", <<a, Z>>), Cx("e", <<X, Y>>),
                 Cx("e", <<Y, X>>), p1(Z), p1(X), Cx("e", <<Cx("f", <<X>>), Cx("f", <<Z>>)>>),
                 Cx("e", <<Lst(<<X>>), LstT(<<Z>>, W)>>)}
(* an answer that keeps an unbound variable of a clause fetched late (its id has two digits) inside a compound term *)
VA == V("$A") VB == V("$B") VC == V("$C") VD == V("$D") VE == V("$E") VF == V("$F") VG == V("$G") VH == V("$H")
LateProg == BaseFacts \o
  << Clause(Cx("late", <<X>>), AndG(<<Call(s2(VA, VB)), Call(s2(VC, VD)), Call(s2(VE, VF)), Call(s2(VG, VH)), Call(Cx("pack", <<X>>))>>)),
     Fact(Cx("pack", <<Cx("box", <<V("$Item")>>)>>)), Fact(Cx("pack", <<LstT(<<a>>, V("$Item"))>>)) >>
(* a fact that leaves a variable of its own inside the caller's binding (box($Item)), then a clause with variables *)
WrapProg == BaseFacts \o AliasExtra \o
  << Fact(Cx("pack", <<Cx("box", <<V("$Item")>>)>>)), Fact(Cx("pack", <<LstT(<<a>>, V("$Item"))>>)),
     Clause(Cx("wr", <<VA, VB>>), AndG(<<Call(Cx("pack", <<VA>>)), Call(Cx("e2", <<VB, c>>))>>)),
     Clause(Cx("wr2", <<VA, VB>>), AndG(<<Call(Cx("pack", <<VA>>)), Call(Cx("pack", <<VB>>))>>)),
     (* a head all of whose arguments are $_ (and a goal all of whose arguments are $_), after a goal that made a binding *)
     Fact(Cx("seen", <<Anon>>)), Fact(Cx("seen2", <<Anon, Anon>>)),
     Clause(Cx("wr3", <<VA, VB>>), AndG(<<Call(q1(VA)), Call(Cx("seen", <<VB>>)), Call(Cx("seen2", <<VA, c>>))>>)),
     Clause(Cx("wr4", <<VA>>), AndG(<<Call(q1(VA)), Call(s2(Anon, Anon))>>)),
     (* a fact with several variables of its own, called with unbound variables which are bound afterwards: under the    *)
     (* renamings of C11 the fact's names and the caller's names coincide in DIFFERENT positions                          *)
     Fact(Cx("both", <<X, Y, Cx("f", <<X, Y>>)>>)), Fact(Cx("first", <<LstT(<<V("$H")>>, V("$T")), V("$H")>>)),
     Clause(Cx("wr5", <<VC>>), AndG(<<Call(Cx("both", <<VA, VB, VC>>)), UnifyG(VA, a), UnifyG(VB, b)>>)),
     Clause(Cx("wr6", <<VA, VB>>), AndG(<<Call(Cx("first", <<VB, VA>>)), UnifyG(VB, Lst(<<a, b>>))>>)) >>
ProgsAlias == PQS({BaseFacts \o AliasExtra \o <<c1_, c2_>> : c1_ \in AliasClauses, c2_ \in AliasClauses}, AliasQueries)
              \cup PQ(LateProg, {Cx("late", <<Z>>), Cx("late", <<X>>)})
              \cup PQ(WrapProg, {Cx("wr", <<Z, W>>), Cx("wr2", <<Z, W>>), Cx("wr", <<X, Y>>), Cx("wr3", <<Z, W>>), Cx("wr4", <<Z>>), Cx("wr5", <<Z>>), Cx("wr6", <<Z, W>>), Cx("wr6", <<V("$T"), V("$H")>>)})

ProgQueries == CASE Slice = "andor" -> ProgsAndOr
                 [] Slice = "cut"   -> ProgsCut
                 [] Slice = "not"   -> ProgsNot
                 [] Slice = "print" -> ProgsPrint
                 [] Slice = "time"  -> ProgsTime
                 [] Slice = "deep"  -> ProgsDeep
                 [] Slice = "lists" -> ProgsLists
                 [] Slice = "alias" -> ProgsAlias
                 [] Slice = "anon"  -> ProgsAnon

(* ------------------------------ the model ------------------------------- *)
NoneSeg == [out |-> <<>>, ans |-> <<>>, some |-> FALSE]
ExpectAt(k) == IF k <= Len(expect) THEN expect[k] ELSE NoneSeg

Init ==
    \E pq \in ProgQueries :
       /\ prog = pq.prog /\ query = pq.query
       /\ expect = <<>>
       /\ nodes = BaseNodes(pq.prog, pq.query, FALSE)
       /\ stack = <<>> /\ ret = NoneR
       /\ nextId = Len(QueryNames(pq.query))
       /\ stop = FALSE /\ outbuf = <<>> /\ hist = <<>>
       /\ phase = "new"
       /\ acts = {} /\ steps = 0
       /\ fireAt = 0 /\ crSeen = 0 /\ lastAct = ""

(* evaluate the reference semantics (a separate step so that TLC's workers share *)
(* the work; initial states are enumerated sequentially)                         *)
Prepare ==
    /\ phase = "new"
    /\ LET st == Stream(prog, query, Depth) IN
       /\ expect' = IF HasE(st, "over") THEN <<>> ELSE Segments(st, query, <<>>)
       /\ phase' = IF HasE(st, "over") THEN "outside" ELSE "idle"
    /\ UNCHANGED <<prog, query, nodes, stack, ret, nextId, stop, outbuf, hist, acts, steps, fireAt, crSeen, lastAct>>

NumNone == Cardinality({k \in DOMAIN hist : ~hist[k].some})
(* (slice "deep": only the reference search is evaluated -- the machine's node store makes TLC crawl at   *)
(*  depth 60+ -- and the real engine is replayed against it)                                             *)
MayAsk  == phase = "idle" /\ NumNone <= ReAsks /\ Slice # "deep"

Next == \/ Prepare
        \/ (MayAsk /\ Ask /\ UNCHANGED expect)
        \/ (Reply /\ UNCHANGED expect)
        \/ (SolverStep /\ UNCHANGED expect)
Spec == Init /\ [][Next]_vars

WithinBudget == steps <= MaxSteps

(* ------------------------------ properties ------------------------------ *)
RECURSIVE IsPrefixSeq(_, _)
IsPrefixSeq(sa, sb) == IF sa = <<>> THEN TRUE
                       ELSE IF sb = <<>> THEN FALSE
                       ELSE Head(sa) = Head(sb) /\ IsPrefixSeq(Tail(sa), Tail(sb))

(* C01 C03 C04 C05: every request observes exactly what the reference search    *)
(* says: the next answer (value, order, multiplicity) and the text printed on   *)
(* the way, then "no more" for ever, silently                                   *)
Refines ==
    phase # "outside" =>
       /\ \A k \in DOMAIN hist : hist[k] = ExpectAt(k)
       /\ (phase = "run" => IsPrefixSeq(outbuf, ExpectAt(Len(hist) + 1).out))
Finished == (phase = "idle" /\ ~MayAsk) \/ phase = "outside"
(* nothing is left unanswered *)
Complete == (phase = "idle" /\ ~MayAsk /\ Slice # "deep") => Len(hist) = Len(expect) + ReAsks
(* the machine never exceeds the step budget on a program inside the claim      *)
Terminates == steps < MaxSteps

(* ------------------------------ C11: alpha-variants ---------------------- *)
(* every clause's k-th variable is renamed to the k-th name of a pool: pool 1   *)
(* starts with the QUERY's own names (capture-prone) and is shared by all        *)
(* clauses; pool 2 reverses each clause's own names (swaps)                      *)
RECURSIVE RenTerm(_, _, _), RenTerms(_, _, _)
RenTerm(t, names, pool) ==
    CASE t.k = "var" -> Var(0, pool[IndexOf(t.s, names)])
      [] t.k \in {"cx", "fn"} -> [t EXCEPT !.a = RenTerms(t.a, names, pool)]
      [] t.k = "list" -> [t EXCEPT !.a = RenTerms(t.a, names, pool),
                                   !.t = IF t.t = <<>> THEN <<>> ELSE <<RenTerm(t.t[1], names, pool)>>]
      [] OTHER -> t
RenTerms(ts, names, pool) == IF ts = <<>> THEN <<>> ELSE <<RenTerm(Head(ts), names, pool)>> \o RenTerms(Tail(ts), names, pool)
RECURSIVE RenGoal(_, _, _), RenGoals(_, _, _)
RenGoal(g, names, pool) ==
    CASE g.g = "call" -> [g EXCEPT !.t = RenTerm(g.t, names, pool)]
      [] g.g = "bip"  -> [g EXCEPT !.a = RenTerms(g.a, names, pool)]
      [] g.g \in {"and", "or", "not", "time"} -> [g EXCEPT !.gs = RenGoals(g.gs, names, pool)]
      [] OTHER -> g
RenGoals(gs, names, pool) == IF gs = <<>> THEN <<>> ELSE <<RenGoal(Head(gs), names, pool)>> \o RenGoals(Tail(gs), names, pool)
RECURSIVE Reverse(_)
Reverse(sq) == IF sq = <<>> THEN <<>> ELSE Append(Reverse(Tail(sq)), Head(sq))
Pool1(q) == QueryNames(q) \o <<"$V1", "$V2", "$V3", "$V4", "$V5", "$V6", "$V7", "$V8", "$V9", "$V10", "$V11", "$V12">>
RenClauseBy(cl, which, q) ==
    LET names == ClauseNames(cl)
        pool  == IF which = 1 THEN Pool1(q) ELSE Reverse(names)
    IN Clause(RenTerm(cl.head, names, pool), RenGoal(cl.body, names, pool))
RECURSIVE RenProg(_, _, _)
RenProg(pg, which, q) == IF pg = <<>> THEN <<>> ELSE <<RenClauseBy(Head(pg), which, q)>> \o RenProg(Tail(pg), which, q)
(* C11: consistently renaming the variables of any rule changes no answer, no    *)
(* order and no output                                                            *)
AlphaInvariant ==
    (phase = "idle" /\ steps = 0) =>
        \A which \in {1, 2} :
            LET st == Stream(RenProg(prog, which, query), query, Depth)
            IN ~HasE(st, "over") /\ Segments(st, query, <<>>) = expect

(* ------------------------------ emission -------------------------------- *)
RECURSIVE PackGoal(_), PackGoals(_)
PackGoal(g) == CASE g.g = "call" -> [g |-> "call", t |-> Pack(g.t)]
                 [] g.g = "bip"  -> [g |-> "bip", f |-> g.f, a |-> PackSeq(g.a)]
                 [] g.g = "nil"  -> [g |-> "nil"]
                 [] OTHER -> [g |-> g.g, gs |-> PackGoals(g.gs)]
PackGoals(gs) == IF gs = <<>> THEN <<>> ELSE <<PackGoal(Head(gs))>> \o PackGoals(Tail(gs))
RECURSIVE PackProg(_)
PackProg(pg) == IF pg = <<>> THEN <<>>
                ELSE <<[head |-> Pack(Head(pg).head), body |-> PackGoal(Head(pg).body)]>> \o PackProg(Tail(pg))
RECURSIVE PackSegs(_)
PackSegs(ss) == IF ss = <<>> THEN <<>>
                ELSE <<[out |-> Head(ss).out, some |-> Head(ss).some, ans |-> PackSeq(Head(ss).ans)]>> \o PackSegs(Tail(ss))
RECURSIVE SetToSeq(_)
SetToSeq(S) == IF S = {} THEN <<>> ELSE LET x == CHOOSE y \in S : TRUE IN <<x>> \o SetToSeq(S \ {x})
Case == [ t |-> "solve", slice |-> Slice,
          prog |-> PackProg(prog), query |-> Pack(query),
          status |-> IF phase = "outside" THEN "out" ELSE "ok",
          expect |-> PackSegs(expect), reasks |-> ReAsks,
          variants |-> IF phase = "outside" THEN <<>> ELSE <<PackProg(RenProg(prog, 1, query)), PackProg(RenProg(prog, 2, query))>>,
          fmt |-> [s \in DOMAIN FmtPiecesDef |-> FmtPiecesDef[s]],
          path |-> SetToSeq(acts), steps |-> steps ]
Emit == Finished => PrintT(<<"CASE", ToJson(Case)>>)

=============================================================================
