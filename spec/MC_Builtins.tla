---------------------------- MODULE MC_Builtins ----------------------------
(***************************************************************************)
(* Bounded-exhaustive model of the built-in predicates (C14, C16, C17 and  *)
(* the list-shape part of C15).  One behaviour = one call of a built-in    *)
(* goal under a prior substitution: Call -> Exec -> done.  TLC checks the  *)
(* algebraic laws below on every call and emits one CASE per call.         *)
(***************************************************************************)
EXTENDS Builtins, Json

CONSTANTS Tier, Slice

VARIABLE c      \* [f, args, prior, phase, r]

X == Var(1, "$X")
Y == Var(2, "$Y")
Z == Var(3, "$Z")
O == Var(4, "$O")
NVars == 4
a == Atom("a")
b == Atom("b")
Thorough == Tier = "thorough"

(* atoms outside ASCII are written {U+XXXX} (see MC_Syntax.tla); the checker puts the characters in *)
AtomCodesDef ==
    [s \in {"a", "b", "ab", "B", "a b", "{U+00E9}", "{U+65E5}", "z", "10", "9", "07", "a{U+00E9}", "f", "g", "h", "noun_phrase",
            "np4", "noun*", "no*", "*", "f*", "x*", "fg*", "c", "d", "x"} |->
       CASE s = "a" -> <<97>> [] s = "b" -> <<98>> [] s = "ab" -> <<97, 98>> [] s = "B" -> <<66>>
         [] s = "a b" -> <<97, 32, 98>> [] s = "{U+00E9}" -> <<233>> [] s = "{U+65E5}" -> <<26085>>
         [] s = "9" -> <<57>> [] s = "07" -> <<48, 55>>
         [] s = "z" -> <<122>> [] s = "10" -> <<49, 48>> [] s = "a{U+00E9}" -> <<97, 233>>
         [] s = "f" -> <<102>> [] s = "g" -> <<103>> [] s = "h" -> <<104>>
         [] s = "noun_phrase" -> <<110, 111, 117, 110, 95, 112, 104, 114, 97, 115, 101>>
         [] s = "np4" -> <<110, 112, 52>>
         [] s = "noun*" -> <<110, 111, 117, 110, 42>> [] s = "no*" -> <<110, 111, 42>>
         [] s = "*" -> <<42>> [] s = "f*" -> <<102, 42>> [] s = "x*" -> <<120, 42>>
         [] s = "fg*" -> <<102, 103, 42>> [] s = "c" -> <<99>> [] s = "d" -> <<100>>
         [] s = "x" -> <<120>>]
(* the format strings of the print slice, as the pieces between their %s markers  *)
(* (the harness checks this table against the real strings)                        *)
FmtPiecesDef ==
    [s \in {"%s", "<%s>", "x%s", "%s-%s", "a%sb%sc", "%s%s", "%sx%s%s", "%s.\n"} |->
       CASE s = "%s" -> <<"", "">> [] s = "<%s>" -> <<"<", ">">> [] s = "x%s" -> <<"x", "">>
         [] s = "%s-%s" -> <<"", "-", "">> [] s = "a%sb%sc" -> <<"a", "b", "c">> [] s = "%s%s" -> <<"", "", "">>
         [] s = "%sx%s%s" -> <<"", "x", "", "">> [] s = "%s.\n" -> <<"", ".\n">>]

P(x, y, z) == <<x, y, z, NoT>>
NoPrior == P(NoT, NoT, NoT)

(* ------------------------------ comparison ------------------------------ *)
(* 2^62 +- 1, i64::MIN + 1, i64::MAX = 2^63 - 1, 2^54 + 1: neighbours which convert to the same float *)
BigNeighbours == {IntA(1, 62, 1), IntA(1, 62, -1), IntA(-1, 63, 1), IntA(1, 63, -1), IntA(1, 54, 1), IntE(1, 54)}
Ints   == {IntT(0), IntT(1), IntT(-1), IntT(2), IntE(1, 62), IntE(-1, 63), IntE(1, 40), IntT(1073741823)} \cup BigNeighbours
(* (2^64, -2^64, 2^70: whole-valued floats outside the i64 range) *)
Flts   == {Flt(0, 0), FltS("-0"), Flt(1, 0), Flt(-1, 0), Flt(1, -1), Flt(3, -1), Flt(-3, -1),
           Flt(1, 62), Flt(1, -20), Flt(5, -2), Flt(1, 40), Flt(1, 64), Flt(-1, 64), Flt(1, 70), Flt(-1, 63), Flt(1, 63)}
Atoms  == {a, b, Atom("ab"), Atom("B"), Atom("a b"), Atom("{U+00E9}"), Atom("{U+65E5}"), Atom("z"),
           Atom("10"), Atom("9"), Atom("07"), Atom("a{U+00E9}")}
NonC   == {Y, Cx("f", <<a>>), Lst(<<a>>), Anon, EmptyList}
Oprs   == Ints \cup Flts \cup Atoms \cup NonC
OprsQ  == {IntT(0), IntT(1), IntT(-1), IntE(1, 62), IntE(-1, 63), IntA(1, 62, 1), IntA(1, 63, -1), IntA(-1, 63, 1), Flt(0, 0), FltS("-0"), Flt(1, 0),
           Flt(3, -1), Flt(-3, -1), Flt(1, 62), Flt(-1, 64), Flt(1, 63), Flt(-1, 63), a, b, Atom("ab"), Atom("B"), Atom("a b"), Atom("{U+00E9}"),
           Atom("10"), Atom("9"), Y, Cx("f", <<a>>), Anon}
CmpOprs == IF Thorough THEN Oprs ELSE OprsQ
CmpCalls ==
       {[f |-> op, args |-> <<x, y>>, prior |-> NoPrior] : op \in CmpOps, x \in CmpOprs, y \in CmpOprs}
  \cup {[f |-> op, args |-> <<X, y>>, prior |-> P(x, NoT, NoT)] : op \in CmpOps, x \in CmpOprs \ {Anon}, y \in CmpOprs}
  \cup {[f |-> op, args |-> <<x, X>>, prior |-> P(Z, NoT, y)] :
            op \in CmpOps, x \in OprsQ, y \in OprsQ \ {Anon}}      \* chain X -> Z -> y

(* ------------------------------ append ---------------------------------- *)
AppIn  == {a, IntT(1), Flt(3, -1), Cx("f", <<a>>), EmptyList, Lst(<<a>>), Lst(<<a, b>>),
           Lst(<<Lst(<<a>>)>>), Lst(<<a, Lst(<<b>>)>>), Lst(<<a, EmptyList>>), Lst(<<EmptyList>>),
           X, LstT(<<a>>, Y), Lst(<<X, b>>), Lst(<<X>>), LstT(<<X>>, Y)}
AppInQ == {a, Cx("f", <<a>>), EmptyList, Lst(<<a, b>>), Lst(<<a, Lst(<<b>>)>>), Lst(<<a, EmptyList>>),
           X, LstT(<<a>>, Y), Lst(<<X>>)}       \* (a list whose only element is a variable)
AppPriors == {P(b, Lst(<<b, Atom("c")>>), NoT), P(Lst(<<Atom("c"), Lst(<<Atom("d")>>)>>), EmptyList, NoT),
              P(Z, Lst(<<Lst(<<Atom("d")>>)>>), Atom("c")), P(Cx("f", <<b>>), LstT(<<a>>, Z), Lst(<<Cx("f", <<a>>)>>)),
              P(Z, Lst(<<b>>), IntT(7)), P(a, NoT, NoT)}       \* (the last one leaves the tail variable $Y unbound)
AppOuts == {O, Lst(<<a, b>>), LstT(<<Z>>, O), Lst(<<a, a, b>>)}
AppCalls ==
    LET In == IF Thorough THEN AppIn ELSE AppInQ IN
       {[f |-> "append", args |-> <<i1, o>>, prior |-> p] : i1 \in In, o \in AppOuts, p \in AppPriors}
  \cup {[f |-> "append", args |-> <<i1, i2, o>>, prior |-> p] : i1 \in In, i2 \in In, o \in {O, Lst(<<a, a, b>>)}, p \in AppPriors}
  \cup {[f |-> "append", args |-> <<i1, i2, i3, O>>, prior |-> p] : i1 \in AppInQ, i2 \in AppInQ, i3 \in AppInQ, p \in AppPriors}
  \cup (IF Thorough
        THEN {[f |-> "append", args |-> <<i1, i2, i3, o>>, prior |-> p] : i1 \in AppIn, i2 \in AppIn, i3 \in AppIn,
                  o \in {O, LstT(<<Z>>, O)}, p \in {P(b, Lst(<<b, Atom("c")>>), NoT), P(Cx("f", <<b>>), LstT(<<a>>, Z), Lst(<<Cx("f", <<a>>)>>))}}
        ELSE {})
  \cup (IF Thorough
        THEN {[f |-> "append", args |-> <<i1, i2, i3, i4, O>>, prior |-> P(b, Lst(<<b, Atom("c")>>), NoT)] :
                 i1 \in {a, Lst(<<a, b>>), X, LstT(<<a>>, Y)}, i2 \in {EmptyList, Lst(<<a, Lst(<<b>>)>>), a},
                 i3 \in {Lst(<<a, EmptyList>>), X, Cx("f", <<a>>)}, i4 \in AppInQ}
        ELSE {})

(* ------------------------------ count ----------------------------------- *)
CntLists == {EmptyList, Lst(<<a>>), Lst(<<a, b, Atom("c")>>), LstT(<<a>>, Anon), LstT(<<a>>, Y), LstT(<<a, b>>, Y),
             Lst(<<Lst(<<a, b>>)>>), Lst(<<a, EmptyList>>), Lst(<<EmptyList>>), X, Lst(<<X, Y>>), LstT(<<a>>, Z)}
CntPriors == {NoPrior, P(Lst(<<a, b>>), Lst(<<b, Atom("c")>>), NoT), P(LstT(<<a>>, Y), EmptyList, NoT),
              P(LstT(<<a>>, Y), LstT(<<b>>, Z), Lst(<<Atom("c"), Atom("d")>>)), P(NoT, Z, Lst(<<a>>))}
CntListsT == {LstT(<<a, b>>, X), LstT(<<a>>, X), Lst(<<X, Lst(<<Y>>), Z>>), LstT(<<Lst(<<a>>), EmptyList>>, Y), Lst(<<a, b, a, b, a>>),
              Lst(<<Cx("f", <<X>>), Cx("f", <<a>>)>>), Y, Z, LstT(<<X>>, Y)}
CntCalls == {[f |-> "count", args |-> <<l, o>>, prior |-> p] :
                l \in CntLists \cup (IF Thorough THEN CntListsT ELSE {}), o \in {O, IntT(2), IntT(3), a} \cup (IF Thorough THEN {IntT(0), IntT(1), IntT(4), IntT(5), X} ELSE {}),
                p \in CntPriors}

(* ------------------------------ include / exclude ------------------------ *)
FltPats  == {a, Y, Anon, Cx("f", <<Anon>>), Cx("f", <<Y>>), LstT(<<Anon>>, Anon), IntT(1), Z, EmptyList, Lst(<<Y>>),
             Cx("g", <<Y, Y>>), LstT(<<Y, Y>>, Anon)}      \* the same unbound variable twice: both places must agree
FltLists == {EmptyList, Lst(<<a>>), Lst(<<a, b, a>>), Lst(<<Cx("f", <<a>>), b, Cx("f", <<b>>)>>),
             Lst(<<a, Lst(<<b>>)>>), Lst(<<Lst(<<a>>), a>>), Lst(<<a, EmptyList>>), Lst(<<IntT(1), a, Flt(3, -1)>>),
             X, LstT(<<a>>, X), Lst(<<Z, b>>), Lst(<<b, Lst(<<a>>), Lst(<<b, a>>)>>),
             Lst(<<Cx("g", <<a, a>>), Cx("g", <<a, b>>), Lst(<<a, a>>), Lst(<<a, b, b>>), Cx("g", <<b, b>>)>>)}
FltPriors == {NoPrior, P(Lst(<<b, a>>), NoT, a), P(Lst(<<Cx("f", <<a>>), Lst(<<a>>)>>), NoT, Cx("f", <<b>>)),
              P(EmptyList, a, b)}
FltPatsT  == {Cx("g", <<Y, Y>>), Cx("g", <<Anon, a>>), Lst(<<Anon>>), LstT(<<a>>, Anon), Cx("f", <<Cx("f", <<Anon>>)>>), b, Atom("c")}
FltListsT == {Lst(<<Cx("g", <<a, a>>), Cx("g", <<a, b>>), Cx("g", <<b, b>>)>>), Lst(<<Lst(<<a>>), Lst(<<a, b>>), EmptyList, a>>),
              LstT(<<a, b>>, X), Lst(<<X, Z, X>>), Lst(<<Cx("f", <<Cx("f", <<a>>)>>), Cx("f", <<a>>), Cx("f", <<Lst(<<a>>)>>)>>), Lst(<<a, a, a, a>>)}
FltCalls == {[f |-> g, args |-> <<pat, l, o>>, prior |-> p] :
                g \in {"include", "exclude"}, pat \in FltPats \cup (IF Thorough THEN FltPatsT ELSE {}),
                l \in FltLists \cup (IF Thorough THEN FltListsT ELSE {}),
                o \in {O, Lst(<<a>>)}, p \in FltPriors}

(* ------------------------------ functor --------------------------------- *)
FunTerms == {Cx("h", <<>>), Cx("f", <<a>>), Cx("g", <<a, b>>), Cx("noun_phrase", <<a, b, Atom("c")>>),
             Cx("np4", <<a, b, a, b>>), X, a, Lst(<<a>>), Cx("f", <<Y>>)}
FunPats  == {Atom("f"), Atom("g"), Atom("noun*"), Atom("no*"), Atom("*"), Atom("f*"), Atom("x*"), Atom("fg*"),
             Atom("noun_phrase"), Y, Z, IntT(1), Anon}
FunPriors == {NoPrior, P(Cx("g", <<a, b>>), NoT, Atom("g")), P(Cx("noun_phrase", <<a>>), NoT, Atom("no*")),
              P(a, NoT, Atom("f"))}
FunCalls ==
       {[f |-> "functor", args |-> <<t, pt>>, prior |-> p] : t \in FunTerms, pt \in FunPats, p \in FunPriors}
  \cup {[f |-> "functor", args |-> <<t, pt, ar>>, prior |-> p] :
           t \in FunTerms, pt \in FunPats, ar \in {O, IntT(1), IntT(2), a}, p \in FunPriors}

(* ------------------------------ print / print_list / nl (C04) ----------- *)
(* print substitutes its later arguments for the %s markers of the first one    *)
(* (k markers, k arguments), or concatenates when there is no marker, showing    *)
(* each argument's bound value                                                   *)
(* an argument's own text may look like a marker: it is shown, never substituted into *)
PrArgs   == {a, b, IntT(7), IntT(-1), X, Z, Atom("hello world"), Atom("%s"), Atom("100%"),
             Cx("f", <<a, IntT(7)>>), Cx("h", <<>>), Lst(<<a, Lst(<<b>>), EmptyList>>), EmptyList, Y}
PrArgsQ  == {a, IntT(7), X, Z, Atom("%s")}
PrPriors == {P(a, Lst(<<a, Cx("f", <<b>>)>>), X), P(IntT(3), Cx("g", <<Lst(<<a>>), IntT(1)>>), b)}
Fm(s) == Atom(s)
PrCalls ==
    LET A == IF Thorough THEN PrArgs ELSE PrArgsQ IN
       {[f |-> "print", args |-> <<Fm(fs), x>>, prior |-> p] : fs \in {"%s", "<%s>", "x%s", "%s.\n"}, x \in PrArgs, p \in PrPriors}
  \cup {[f |-> "print", args |-> <<Fm(fs), x, y>>, prior |-> p] : fs \in {"%s-%s", "a%sb%sc", "%s%s"}, x \in A, y \in PrArgs, p \in PrPriors}
  \cup {[f |-> "print", args |-> <<Fm("%sx%s%s"), x, y, z>>, prior |-> P(a, NoT, X)] : x \in A, y \in A, z \in PrArgsQ}
  (* the format string reached through a variable (and through a chain of two) *)
  \cup {[f |-> "print", args |-> <<X, y>>, prior |-> P(Fm(fs), NoT, NoT)] : fs \in {"%s", "<%s>", "x%s"}, y \in PrArgsQ}
  \cup {[f |-> "print", args |-> <<Z, y, a>>, prior |-> P(Fm(fs), NoT, X)] : fs \in {"%s-%s", "a%sb%sc"}, y \in PrArgsQ}
  \cup {[f |-> "print", args |-> <<x>>, prior |-> p] : x \in PrArgs, p \in PrPriors}
  \cup {[f |-> "print", args |-> <<x, y>>, prior |-> p] : x \in PrArgs, y \in PrArgs, p \in PrPriors}
  \cup {[f |-> "print", args |-> <<x, y, z>>, prior |-> P(a, NoT, X)] : x \in A, y \in A, z \in A}
  \cup {[f |-> "print_list", args |-> <<l>>, prior |-> p] :
           l \in {EmptyList, Lst(<<a>>), Lst(<<a, b, IntT(7)>>), Lst(<<X, b>>), Lst(<<Z, X, Z>>), LstT(<<a>>, Y), X, Lst(<<Atom("hello world"), IntT(-1)>>),
                  Lst(<<Cx("f", <<a>>), Lst(<<a, b>>), EmptyList>>), Y},
           p \in PrPriors \cup {P(Lst(<<a, b>>), Lst(<<b, Atom("c")>>), NoT), P(b, EmptyList, X)}}
  \cup {[f |-> "nl", args |-> <<>>, prior |-> NoPrior]}

Calls == CASE Slice = "cmp"     -> CmpCalls
           [] Slice = "print"   -> PrCalls
           [] Slice = "append"  -> AppCalls
           [] Slice = "count"   -> CntCalls
           [] Slice = "filter"  -> FltCalls
           [] Slice = "functor" -> FunCalls

Init == \E k \in Calls : c = [f |-> k.f, args |-> k.args, prior |-> k.prior, phase |-> "call",
                              r |-> R("out", k.prior, "")]

Exec == /\ c.phase = "call"
        /\ c' = [c EXCEPT !.phase = "done", !.r = BipSem(c.f, c.args, c.prior)]

Next == Exec
Spec == Init /\ [][Next]_c

(* ------------------------------ laws ------------------------------------ *)
Done == c.phase = "done"
Ok   == Done /\ c.r.st = "ok"

(* earlier bindings survive every built-in *)
KeepsPrior == Done => \A i \in DOMAIN c.prior : c.prior[i] # NoT => c.r.b[i] = c.prior[i]
AcyclicRes == Done => Acyclic(c.r.b)
(* comparisons bind nothing *)
CmpBindsNothing == (Done /\ c.f \in CmpOps) => c.r.b = c.prior
(* order laws on comparable constants *)
Holds(op, x, y) == CmpSem(op, <<x, y>>, c.prior).st = "ok"
CmpLaws == (Done /\ c.f \in CmpOps /\ c.r.st # "out") =>
    LET x == c.args[1]  y == c.args[2] IN
    /\ Holds("less_than_or_equal", x, y) = (Holds("less_than", x, y) \/ Holds("equal", x, y))
    /\ Holds("greater_than", x, y) = Holds("less_than", y, x)
    /\ Holds("greater_than_or_equal", x, y) = Holds("less_than_or_equal", y, x)
    /\ ~(Holds("less_than", x, y) /\ Holds("greater_than", x, y))
    /\ (IsConst(Walk(x, c.prior)) /\ IsConst(Walk(y, c.prior)) /\ Order(Walk(x, c.prior), Walk(y, c.prior)) # "none")
          => (Holds("less_than", x, y) \/ Holds("equal", x, y) \/ Holds("greater_than", x, y))
(* length of append = sum of the parts *)
AppendLen == (Ok /\ c.f = "append") =>
    LET out == Resolve(c.args[Len(c.args)], c.r.b)
        all == AppendAll(SubSeq(c.args, 1, Len(c.args) - 1), c.prior)
    IN out.k = "list" /\ (out.t = <<>> => Len(out.a) = Len(all.els))
(* include and exclude partition the list *)
FilterPartition == (Ok /\ c.f \in {"include", "exclude"}) =>
    LET l == Resolve(c.args[2], c.prior)
        i == FilterEls(c.args[1], l.a, c.prior, TRUE)
        e == FilterEls(c.args[1], l.a, c.prior, FALSE)
    IN Len(i.els) + Len(e.els) = Len(l.a)

(* ------------------------------ emission -------------------------------- *)
RECURSIVE CodesFor(_)
TableSeq == LET D == DOMAIN AtomCodesDef IN
            {[s |-> s, c |-> AtomCodesDef[s]] : s \in D}
CodesFor(S) == IF S = {} THEN <<>>
               ELSE LET x == CHOOSE y \in S : TRUE IN <<x>> \o CodesFor(S \ {x})
Case == [ t      |-> "bip",
          slice  |-> Slice,
          f      |-> c.f,
          args   |-> PackSeq(c.args),
          prior  |-> PackSeq(c.prior),
          status |-> c.r.st,
          out    |-> c.r.out,
          fmt    |-> [s \in DOMAIN FmtPiecesDef |-> FmtPiecesDef[s]],
          res    |-> PackSeq(Canon(ResolveSeq(VarVec(1, NVars) \o c.args, c.r.b))),
          path   |-> <<c.f, c.r.st>> ]
Emit == Done => PrintT(<<"CASE", ToJson(Case)>>)
(* the atom table, once: the harness checks it against the real strings *)
ASSUME PrintT(<<"ATOMS", ToJson(CodesFor(TableSeq))>>)

=============================================================================
