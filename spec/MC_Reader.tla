----------------------------- MODULE MC_Reader -----------------------------
(***************************************************************************)
(* C21: every legal layout of a program -- line breaks after the documented*)
(* continuation characters, indentation, blank lines, comments outside     *)
(* brackets, several rules on one line -- with at most K deviations from   *)
(* the plain layout (one rule per line).  TLC lays the program out, runs   *)
(* the Reader machine over the lines and checks that it returns the rules; *)
(* the harness writes each layout to a file and compares load_kb_from_file *)
(* with parse_rule on each rule.                                           *)
(***************************************************************************)
EXTENDS Reader, Json, FiniteSets

CONSTANTS Tier, Slice

VARIABLES progv, choice

Thorough == Tier = "thorough"
K == IF Thorough THEN 3 ELSE 2

Pc(tx, d0, end) == [tx |-> tx, d0 |-> d0, end |-> end]
In(tx)  == Pc(tx, FALSE, FALSE)     \* ends inside brackets
Out(tx) == Pc(tx, TRUE, FALSE)      \* ends outside brackets
End(tx) == Pc(tx, TRUE, TRUE)       \* ends the rule

R_fact  == <<In("mother(June,"), End("The Beaver).")>>
R_rule  == <<In("father($X,"), Out("$Y) :-"), In("parent($X,"), Out("$Y),"), End("male($X).")>>
R_or    == <<Out("p($X) :-"), Out("q($X);"), Out("r($X),"), End("s.")>>
R_flt   == <<End("pi(3.14159).")>>
R_calc  == <<In("calc($X,"), Out("$Y) :-"), Out("$Y ="), Out("$X + 1.5,"), End("$Y > 2.5.")>>
R_minus == <<In("dec($X,"), Out("$Y) :-"), Out("$Y ="), Out("$X -"), End("1.")>>
R_list  == <<In("l([a,"), End("b | $T]).")>>
R_cmp   == <<Out("big($X) :-"), Out("$X >="), End("10.")>>
R_go    == <<End("go.")>>
R_eq    == <<Out("eq($X) :-"), Out("$X ="), End("5.")>>
R_neg   == <<Out("cold($T) :-"), End("$T < -2.5.")>>

(* quoted text with periods, comment characters and commas inside parentheses; cut; not(...) divided  *)
(* inside its parentheses; nested brackets over three lines; a list pattern after `=`; floats and      *)
(* negative numbers at the end of a rule; three alternatives                                            *)
R_quote == <<Out("say($X) :-"), In("print(\"Dr. %s, 100% // ok #1\","), End("$X).")>>
R_cut   == <<Out("first($X) :-"), Out("q($X),"), End("!.")>>
R_not   == <<Out("none($X) :-"), In("not(q($X,"), End("$Y)).")>>
R_deep  == <<In("deep(f(g($X,"), In("[a,"), In("b])),"), End("$Y).")>>
R_hd    == <<In("hd($L,"), Out("$H) :-"), Out("$L ="), End("[$H | $_].")>>
R_half  == <<Out("half($X) :-"), Out("$X ="), End("0.5.")>>
R_negi  == <<Out("neg($X) :-"), Out("$X ="), End("-5.")>>
R_or3   == <<Out("any($X) :-"), Out("q($X);"), Out("r($X);"), End("$X = 7.")>>
R_le    == <<Out("small($X) :-"), Out("num($X),"), Out("$X <="), End("2.5.")>>
R_eqeq  == <<Out("same($X, $Y) :-"), Out("$X =="), End("$Y.")>>

Programs == IF Slice = "layout"
            THEN { <<R_fact, R_rule>>, <<R_or, R_go>>, <<R_flt, R_calc>>, <<R_minus>>, <<R_list, R_cmp>>,
                   <<R_eq, R_fact>>, <<R_neg, R_go, R_flt>>, <<R_rule, R_eq>>,
                   <<R_quote, R_go>>, <<R_cut, R_not>>, <<R_deep>>, <<R_hd, R_half>>, <<R_negi, R_or3>>, <<R_le, R_eqeq>> }
               \cup (IF Thorough THEN { <<R_quote, R_calc>>, <<R_not, R_flt, R_cut>>, <<R_half, R_negi, R_go>>, <<R_deep, R_le>>,
                                        <<R_or3, R_hd>>, <<R_eqeq, R_minus, R_fact>> } ELSE {})
            ELSE {}

RECURSIVE Flat(_)
Flat(rs) == IF rs = <<>> THEN <<>> ELSE Head(rs) \o Flat(Tail(rs))

(* ---------------- layout choices at the break after each piece ------------ *)
(* ("c#0", "c//0": the comment directly after the text, without a blank; "ctab": a tab before it) *)
InnerOpts == {"sp", "nl", "nl_in", "nl_tab", "nl_bl", "c#", "c%", "c//", "cl#", "c#0", "ctab"}
EndOpts   == {"nl", "sp", "nl_bl", "c#", "c%", "c//", "cl#", "nl_in", "c#0", "c//0", "ctab"}
Default(p) == IF p.end THEN "nl" ELSE "sp"
NeedsD0(o) == o \in {"c#", "c%", "c//", "cl#", "c#0", "c//0", "ctab"}
OptsFor(p) == {o \in (IF p.end THEN EndOpts ELSE InnerOpts) : (~NeedsD0(o)) \/ p.d0}

(* all choice vectors with at most K deviations from the default             *)
AllOpts == InnerOpts \cup EndOpts
Choices(ps) ==
    UNION { { [i \in DOMAIN ps |-> IF i \in D THEN f[i] ELSE Default(ps[i])] :
                f \in {g \in [D -> AllOpts] : \A i \in D : g[i] \in OptsFor(ps[i]) \ {Default(ps[i])}} } :
            D \in {S \in SUBSET (DOMAIN ps) : Cardinality(S) <= K} }

Line(ps, indent, comment) == [ps |-> ps, indent |-> indent, comment |-> comment]
CommentOf(o) == CASE o = "c#" -> "#" [] o = "c%" -> "%" [] o = "c//" -> "//" [] o = "c#0" -> "#0" [] o = "c//0" -> "//0" [] o = "ctab" -> "%t" [] OTHER -> ""

(* lay the pieces out: returns the sequence of lines                          *)
RECURSIVE Lay(_, _, _, _, _)
Lay(ps, ch, i, cur, indent) ==
    IF i > Len(ps) THEN (IF cur = <<>> THEN <<>> ELSE <<Line(cur, indent, "")>>)
    ELSE LET c2 == Append(cur, ps[i])  o == ch[i] IN
         CASE o = "sp"     -> Lay(ps, ch, i + 1, c2, indent)
           [] o = "nl"     -> <<Line(c2, indent, "")>> \o Lay(ps, ch, i + 1, <<>>, "")
           [] o = "nl_in"  -> <<Line(c2, indent, "")>> \o Lay(ps, ch, i + 1, <<>>, "    ")
           [] o = "nl_tab" -> <<Line(c2, indent, "")>> \o Lay(ps, ch, i + 1, <<>>, "\t")
           [] o = "nl_bl"  -> <<Line(c2, indent, ""), Line(<<>>, "", "")>> \o Lay(ps, ch, i + 1, <<>>, "")
           [] o = "cl#"    -> <<Line(c2, indent, ""), Line(<<>>, "  ", "#")>> \o Lay(ps, ch, i + 1, <<>>, "")
           [] OTHER        -> <<Line(c2, indent, CommentOf(o))>> \o Lay(ps, ch, i + 1, <<>>, "")

Init == \E pg \in Programs : \E ch \in Choices(Flat(pg)) :
           /\ progv = pg /\ choice = ch
           /\ RInit(Lay(Flat(pg), ch, 1, <<>>, ""))

Next == RNext /\ UNCHANGED <<progv, choice>>
Spec == Init /\ [][Next]_<<rvars, progv, choice>>

(* ---------------- properties ---------------- *)
(* the reader returns exactly the rules the file was laid out from, in order   *)
ReaderCorrect == rstate = "done" => rules = progv
AllLegal == \A i \in DOMAIN lines : LegalLine(lines[i])

(* ---------------- emission ---------------- *)
RECURSIVE JoinSp(_)
JoinSp(ps) == IF ps = <<>> THEN "" ELSE IF Len(ps) = 1 THEN ps[1].tx ELSE ps[1].tx \o " " \o JoinSp(Tail(ps))
CommentText(c) == CASE c = "#0" -> "#" [] c = "//0" -> "//" [] c = "%t" -> "%" [] OTHER -> c
CommentGap(c)  == CASE c \in {"#0", "//0"} -> "" [] c = "%t" -> "\t" [] OTHER -> "  "
LineText(l) == l.indent \o JoinSp(l.ps)
               \o (IF l.comment = "" THEN "" ELSE (IF l.ps = <<>> THEN "" ELSE CommentGap(l.comment)) \o CommentText(l.comment) \o " a comment, with (brackets]. and = ; -")
RECURSIVE LinesText(_)
LinesText(ls) == IF ls = <<>> THEN <<>> ELSE <<LineText(Head(ls))>> \o LinesText(Tail(ls))
RECURSIVE RulesText(_)
RulesText(rs) == IF rs = <<>> THEN <<>> ELSE <<JoinSp(Head(rs))>> \o RulesText(Tail(rs))
RECURSIVE ChoiceSeq(_, _)
ChoiceSeq(ch, i) == IF i > Len(ch) THEN <<>> ELSE <<ch[i]>> \o ChoiceSeq(ch, i + 1)
Case == [ t |-> "reader", slice |-> Slice, rules |-> RulesText(progv), lines |-> LinesText(lines),
          legal |-> TRUE, path |-> ChoiceSeq(choice, 1) ]
Emit == rstate = "done" => PrintT(<<"CASE", ToJson(Case)>>)

=============================================================================
