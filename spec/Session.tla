------------------------------ MODULE Session ------------------------------
(***************************************************************************)
(* Several queries, one after the other, against one knowledge base in one *)
(* process (C22; the reporting rules of solve / solve_all for C23).        *)
(*                                                                         *)
(* What survives from one query to the next is exactly the process-global  *)
(* state of the implementation: the stop flag (SUIRON_STOP_QUERY) and the  *)
(* id counter (LOGIC_VAR_ID).  An episode = build a query with the query   *)
(* constructors (make_query / parse_query, then make_base_node), then a    *)
(* list of API calls on it: next_solution, solve, solve_all.  During a     *)
(* solve / solve_all call the query timer may fire (virtual timer of       *)
(* Solver.tla: just before the k-th count_rules() of the call).            *)
(*                                                                         *)
(* INTENDED design: the query constructors reset both globals, so every    *)
(* episode observes the answers of its own query.  Bug_StaleStopFlag is    *)
(* the code as first found: only the id counter is reset.                  *)
(***************************************************************************)
EXTENDS Solver

CONSTANTS Bug_StaleStopFlag, Depth

VARIABLES plan,      \* episodes still to run: <<[query, calls]>>, a call is [mode, fire]
          calls,     \* calls still to make in the current episode
          cur,       \* the call in progress: [mode, got, fired] or NoCall
          tainted,   \* the current episode had a timeout: its later calls are unconstrained
          reports,   \* one entry per finished call: [ep, mode, rep, want, free, armed, ok]
          epno

sesvars == <<plan, calls, cur, tainted, reports, epno>>
allvars == <<svars, sesvars>>

NoCall == [mode |-> "none", got |-> <<>>, fired |-> FALSE]

(* ---------------- what a call should report ---------------- *)
Expected == Observed(prog, query, Depth)            \* the segments of THIS query
SegAt(k)  == IF k <= Len(Expected) THEN Expected[k] ELSE [out |-> <<>>, ans |-> <<>>, some |-> FALSE]
RECURSIVE AnswersFrom(_)
AnswersFrom(k) == IF k > Len(Expected) \/ ~Expected[k].some THEN <<>>
                  ELSE <<Expected[k].ans>> \o AnswersFrom(k + 1)
RECURSIVE IsPrefixOf(_, _)
IsPrefixOf(s1, s2) == IF s1 = <<>> THEN TRUE ELSE IF s2 = <<>> THEN FALSE
                      ELSE Head(s1) = Head(s2) /\ IsPrefixOf(Tail(s1), Tail(s2))

Rep(kind, ans, list, to) == [kind |-> kind, ans |-> ans, list |-> list, timeout |-> to]

(* ---------------- build a query: make_query + make_base_node ---------------- *)
NewQuery ==
    /\ phase = "between" /\ plan # <<>>
    /\ LET e == Head(plan)
           st == IF Bug_StaleStopFlag THEN stop ELSE FALSE IN      \* the constructors reset the flag
       /\ query' = e.query
       /\ stop' = st
       /\ nextId' = Len(QueryNames(e.query))                      \* ... and the id counter
       /\ nodes' = BaseNodes(prog, e.query, st)                    \* make_base_node counts the rules now
       /\ calls' = e.calls
    /\ plan' = Tail(plan)
    /\ hist' = <<>> /\ stack' = <<>> /\ ret' = NoneR /\ outbuf' = <<>>
    /\ phase' = "idle" /\ tainted' = FALSE /\ cur' = NoCall
    /\ epno' = epno + 1
    /\ fireAt' = 0 /\ crSeen' = 0
    /\ Tick("NewQuery")
    /\ UNCHANGED <<prog, reports>>

EpisodeDone ==
    /\ phase = "idle" /\ calls = <<>> /\ cur = NoCall
    /\ phase' = "between"
    /\ UNCHANGED <<prog, query, nodes, stack, ret, nextId, stop, outbuf, hist, acts, steps, fireAt, crSeen, lastAct,
                   plan, calls, cur, tainted, reports, epno>>

(* ---------------- start an API call ---------------- *)
StartCall ==
    /\ phase = "idle" /\ calls # <<>> /\ cur = NoCall
    /\ LET c0 == Head(calls)
           (* "ssolve" / "sall": the application calls stop_query() (public API) and then solve() / solve_all(); the  *)
           (* call clears the flag before it searches, so the search goes on exactly as after a plain call            *)
           c == [c0 EXCEPT !.mode = IF c0.mode = "ssolve" THEN "solve" ELSE IF c0.mode = "sall" THEN "all" ELSE c0.mode] IN
       /\ cur' = [mode |-> c.mode, got |-> <<>>, fired |-> (c.mode # "next" /\ c.fire > 0)]
       /\ stop' = IF c.mode = "next" THEN stop ELSE FALSE          \* start_query_timer() clears the flag
       /\ fireAt' = IF c.mode = "next" THEN 0 ELSE c.fire
       /\ crSeen' = 0
    /\ calls' = Tail(calls)
    /\ phase' = "run"
    /\ stack' = <<[n |-> 1, pc |-> "enter"]>>
    /\ outbuf' = <<>> /\ ret' = NoneR
    /\ Tick("StartCall")
    /\ UNCHANGED <<prog, query, nodes, nextId, hist, plan, tainted, reports, epno>>

(* ---------------- next_solution() returned inside the call ---------------- *)
Finish(rep, want, okv) ==
    /\ reports' = Append(reports, [ep |-> epno, mode |-> cur.mode, rep |-> rep, want |-> want,
                                   free |-> tainted,            \* after a timeout of this query: unconstrained
                                   armed |-> cur.fired,         \* the call's own (virtual) timer was set to fire
                                   ok |-> tainted \/ okv])
    /\ cur' = NoCall
    /\ phase' = "idle"
    /\ fireAt' = 0                                                   \* cancel_timer()
    /\ tainted' = (tainted \/ rep.timeout)
    /\ UNCHANGED <<stack>>

Returned ==
    /\ phase = "run" /\ stack = <<>> /\ cur # NoCall
    /\ LET h == Len(hist)
           seg == SegAt(h + 1)
           thisAns == IF ret.some THEN AnswerOf(query, ret.b) ELSE <<>>
           hist2 == Append(hist, [out |-> outbuf, some |-> ret.some, ans |-> thisAns])
           fired == stop /\ cur.mode # "next" IN
       /\ hist' = hist2
       /\ CASE cur.mode = "next" ->
                 Finish(Rep(IF ret.some THEN "ans" ELSE "none", thisAns, <<>>, FALSE),
                        Rep(IF seg.some THEN "ans" ELSE "none", seg.ans, <<>>, FALSE),
                        ret.some = seg.some /\ thisAns = seg.ans)
            [] cur.mode = "solve" ->
                 IF stop
                 THEN Finish(Rep("timeout", <<>>, <<>>, TRUE), Rep("timeout", <<>>, <<>>, TRUE), fireAt > 0)
                 ELSE Finish(Rep(IF ret.some THEN "ans" ELSE "none", thisAns, <<>>, FALSE),
                             Rep(IF seg.some THEN "ans" ELSE "none", seg.ans, <<>>, FALSE),
                             ret.some = seg.some /\ thisAns = seg.ans)
            [] cur.mode = "all" ->
                 IF stop                                               \* `if query_stopped() { break; }`
                 THEN Finish(Rep("all", <<>>, cur.got, TRUE), Rep("all", <<>>, AnswersFrom(h - Len(cur.got) + 1), TRUE),
                             fireAt > 0 /\ IsPrefixOf(cur.got, AnswersFrom(h - Len(cur.got) + 1)))
                 ELSE IF ret.some
                 THEN /\ cur' = [cur EXCEPT !.got = Append(@, thisAns)]
                      /\ stack' = <<[n |-> 1, pc |-> "enter"]>>          \* loop: next_solution() again
                      /\ UNCHANGED <<reports, phase, fireAt, tainted>>
                 ELSE Finish(Rep("all", <<>>, cur.got, FALSE), Rep("all", <<>>, AnswersFrom(h - Len(cur.got) + 1), FALSE),
                             cur.got = AnswersFrom(h - Len(cur.got) + 1))
    /\ outbuf' = <<>>
    /\ Tick("Returned")
    /\ UNCHANGED <<prog, query, nodes, ret, nextId, stop, crSeen, plan, calls, epno>>

SessionNext ==
    \/ NewQuery \/ EpisodeDone \/ StartCall \/ Returned
    \/ (SolverStep /\ UNCHANGED sesvars)

(* ---------------- C22 / C23 ---------------- *)
(* every call of every episode reports what its OWN query's search says: the    *)
(* next answer, "no more", all remaining answers -- or a timeout, and a timeout  *)
(* only when the call's own timer fired                                          *)
EachRunIsItsOwnSLD == \A i \in DOMAIN reports : reports[i].ok
(* C23: a call whose own timer does not fire never reports a timeout -- whatever happened before, *)
(* also on a query one of whose earlier calls timed out (start_query_timer clears the flag)         *)
NoSpuriousTimeout == \A i \in DOMAIN reports : reports[i].rep.timeout => reports[i].armed

=============================================================================
