------------------------------- MODULE Repl -------------------------------
(***************************************************************************)
(* The `query` program (src/main.rs): load a source file, then             *)
(*     loop: print "?- ", read a line; an empty line ends the program;     *)
(*           parse it as a query (an error is printed, back to the prompt);*)
(*           loop: r := solve(); print r and a blank; read a line;         *)
(*                 until r = "No more."                                    *)
(* One action per turn of each loop.  The machine produces the TRANSCRIPT: *)
(* the sequence of things written and lines read, as tokens; what solve()  *)
(* reports for a query is what the reference search observes (SLD.tla's    *)
(* Observed: the text the search prints on the way, then the answer or     *)
(* "No more.").  Every query of the session is built by parse_query and    *)
(* make_base_node in the same process: the session is a history in the     *)
(* sense of C22, through the real program.                                 *)
(***************************************************************************)
EXTENDS Syntax

CONSTANT ReplDepth

VARIABLES rprog,     \* the program in the source file
          rtodo,     \* what the user will type at the prompts: [kind |-> "query", q |-> term] or [kind |-> "junk", text |-> string]
          rmode,     \* "prompt" | "answers" | "done"
          rquery,    \* the query being answered
          rsegs,     \* what its remaining solve() calls observe
          rout       \* the transcript so far

rvars == <<rprog, rtodo, rmode, rquery, rsegs, rout>>

Tok(t, s, q, ans) == [t |-> t, s |-> s, q |-> q, ans |-> ans]
NoQ == Atom("")

RInit(prog, todo) ==
    /\ rprog = prog /\ rtodo = todo /\ rmode = "prompt" /\ rquery = NoQ /\ rsegs = <<>>
    /\ rout = <<Tok("loading", "", NoQ, <<>>)>>

(* the outer loop: prompt, read a line *)
ReplPrompt ==
    /\ rmode = "prompt"
    /\ IF rtodo = <<>>
       THEN /\ rout' = rout \o <<Tok("prompt", "", NoQ, <<>>), Tok("read", "", NoQ, <<>>)>>      \* an empty line: the program ends
            /\ rmode' = "done" /\ UNCHANGED <<rtodo, rquery, rsegs>>
       ELSE LET it == Head(rtodo) IN
            IF it.kind = "junk"
            THEN /\ rout' = rout \o <<Tok("prompt", "", NoQ, <<>>), Tok("read", it.text, NoQ, <<>>), Tok("error", "", NoQ, <<>>)>>
                 /\ rtodo' = Tail(rtodo) /\ UNCHANGED <<rmode, rquery, rsegs>>
            ELSE /\ rout' = rout \o <<Tok("prompt", "", NoQ, <<>>), Tok("read", PrintTerm(it.q), NoQ, <<>>)>>
                 /\ rtodo' = Tail(rtodo) /\ rmode' = "answers" /\ rquery' = it.q
                 /\ rsegs' = Observed(rprog, it.q, ReplDepth)
    /\ UNCHANGED rprog

RECURSIVE TextToks(_)
TextToks(ss) == IF ss = <<>> THEN <<>> ELSE <<Tok("text", Head(ss), NoQ, <<>>)>> \o TextToks(Tail(ss))

(* the inner loop: one solve(), its report, one line read *)
ReplAnswer ==
    /\ rmode = "answers" /\ rsegs # <<>>
    /\ LET sg == Head(rsegs) IN
       /\ rout' = rout \o TextToks(sg.out)
                       \o <<IF sg.some THEN Tok("answer", "", rquery, sg.ans) ELSE Tok("nomore", "", NoQ, <<>>), Tok("read", "", NoQ, <<>>)>>
       /\ rmode' = IF sg.some THEN "answers" ELSE "prompt"
       /\ rsegs' = Tail(rsegs)
    /\ UNCHANGED <<rprog, rtodo, rquery>>

RNext == ReplPrompt \/ ReplAnswer

(* every query typed gets all its answers and then exactly one "No more.", before the next prompt *)
RECURSIVE CountTok(_, _)
CountTok(ts, t) == IF ts = <<>> THEN 0 ELSE (IF Head(ts).t = t THEN 1 ELSE 0) + CountTok(Tail(ts), t)
PromptsAndEnds == rmode = "done" => CountTok(rout, "prompt") = CountTok(rout, "nomore") + CountTok(rout, "error") + 1
(* the last segment of a query's observation is the "No more." one: the inner loop always comes back to the prompt *)
InnerLoopEnds == (rmode = "answers") => (rsegs # <<>> /\ ~rsegs[Len(rsegs)].some)

=============================================================================
