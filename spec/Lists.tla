------------------------------- MODULE Lists -------------------------------
(***************************************************************************)
(* The concrete cons-cell layer of Suiron lists (Unifiable::SLinkedList)   *)
(* and make_linked_list() transcribed as a loop machine (C15).             *)
(*                                                                         *)
(* A cell is [term, next, count, tv]; the empty list and the terminator of *)
(* every list is the cell {Nil, Nil, 0, false}.  WF(c) is the canonical    *)
(* representation every engine-built list must have; Abs(c) maps a         *)
(* well-formed spine back to the abstract list of Terms.tla.               *)
(***************************************************************************)
EXTENDS Terms

CONSTANT Bug_DropsEmptyTail   \* TRUE: `tail = Nil` when the last term is [] (the defect)

NilC == [c |-> "nil"]
Cell(term, next, count, tv) == [c |-> "cell", term |-> term, next |-> next, count |-> count, tv |-> tv]
EmptyC == Cell(NilC, NilC, 0, FALSE)

(* concrete spine of an abstract list (elements stay abstract)              *)
RECURSIVE Spine(_, _)
Spine(els, tl) ==
    IF els = <<>>
    THEN (IF tl = <<>> THEN EmptyC ELSE Cell(tl[1], EmptyC, 1, TRUE))
    ELSE LET rest == Spine(Tail(els), tl)
         IN Cell(Head(els), rest, rest.count + 1, FALSE)
Concrete(l) == Spine(l.a, l.t)

RECURSIVE WF(_)
WF(c) == /\ c # NilC
         /\ IF c.term = NilC THEN c = EmptyC
            ELSE /\ c.next # NilC /\ WF(c.next)
                 /\ c.count = c.next.count + 1
                 /\ (c.tv => c.next = EmptyC)

RECURSIVE AbsEls(_)
AbsEls(c) == IF c.term = NilC \/ c.tv THEN <<>> ELSE <<c.term>> \o AbsEls(c.next)
RECURSIVE AbsTail(_)
AbsTail(c) == IF c.term = NilC THEN <<>> ELSE IF c.tv THEN <<c.term>> ELSE AbsTail(c.next)
Abs(c) == T("list", "", 0, 0, AbsEls(c), AbsTail(c))

(* ---------------- make_linked_list(vbar, terms) as a machine ------------- *)
(* state m: [terms, vbar, i, tail, num, tailVar, pc, result]                 *)
(* pc: "loop" (while i > 0), "done"                                          *)
MkInit(vbar, terms) ==
    IF terms = <<>>
    THEN [terms |-> terms, vbar |-> vbar, i |-> 0, tail |-> EmptyC, num |-> 0,
          tailVar |-> vbar, pc |-> "done", result |-> EmptyC]
    ELSE [terms |-> terms, vbar |-> vbar, i |-> Len(terms), tail |-> EmptyC, num |-> 1,
          tailVar |-> vbar, pc |-> "loop", result |-> NilC]

(* one iteration of `while i > 0` (i is 1-based here; the Rust index is i-1)  *)
MkStep(m) ==
    LET node == m.terms[m.i]
        last == m.i = Len(m.terms) IN
    IF m.i = 1
    THEN [m EXCEPT !.pc = "done", !.result = Cell(node, m.tail, m.num, m.tailVar)]
    ELSE IF last /\ node.k = "list"
    THEN (* splice a trailing list in as the rest of the list *)
         IF node.a = <<>> /\ node.t = <<>>
         THEN [m EXCEPT !.tail = IF Bug_DropsEmptyTail THEN NilC ELSE EmptyC,
                        !.tailVar = FALSE, !.i = @ - 1]
         ELSE LET cc == Concrete(node)
              IN [m EXCEPT !.tail = cc, !.num = cc.count + 1, !.tailVar = FALSE, !.i = @ - 1]
    ELSE [m EXCEPT !.tail = Cell(node, m.tail, m.num, m.tailVar),
                   !.num = @ + 1, !.tailVar = FALSE, !.i = @ - 1]

RECURSIVE MkRun(_)
MkRun(m) == IF m.pc = "done" THEN m ELSE MkRun(MkStep(m))

(* ---------------- the documented constructor contract -------------------- *)
(* given elements; a trailing tail variable (vbar) as the tail; a trailing     *)
(* list spliced in as the rest of the list, as [a | [b, c]]                    *)
Front(s) == SubSeq(s, 1, Len(s) - 1)
Last(s)  == s[Len(s)]
InContract(vbar, terms) ==
    \/ terms = <<>> /\ ~vbar
    \/ /\ vbar /\ Len(terms) >= 2 /\ Last(terms).k \in {"var", "anon"}
    \/ /\ ~vbar /\ Len(terms) >= 1
       /\ ~(Len(terms) = 1 /\ terms[1].k = "list")       \* [x] with x a list: not documented
Contract(vbar, terms) ==
    IF terms = <<>> THEN EmptyList
    ELSE IF vbar THEN LstT(Front(terms), Last(terms))
    ELSE IF Last(terms).k = "list" /\ Len(terms) >= 2
    THEN T("list", "", 0, 0, Front(terms) \o Last(terms).a, Last(terms).t)
    ELSE Lst(terms)

=============================================================================
