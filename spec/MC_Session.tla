----------------------------- MODULE MC_Session -----------------------------
(***************************************************************************)
(* C22 (and the reporting side of C23): all histories of up to 2 (3)       *)
(* episodes over a small knowledge base; each episode builds a query with  *)
(* the constructors and then makes a list of next_solution / solve /       *)
(* solve_all calls, re-asking after exhaustion; during a solve / solve_all *)
(* call the (virtual) query timer may fire before the k-th count_rules().  *)
(***************************************************************************)
EXTENDS Session, Json

CONSTANTS Tier, Slice, MaxSteps

Thorough == Tier = "thorough"
V(n) == Var(0, n)
a == Atom("a") b == Atom("b") c == Atom("c")
Z == V("$Z") X == V("$X") Y == V("$Y")
AtomCodesDef == [s \in {"a", "b", "c"} |-> CASE s = "a" -> <<97>> [] s = "b" -> <<98>> [] s = "c" -> <<99>>]
FmtPiecesDef == [s \in {} |-> <<>>]

KB == << Fact(Cx("q", <<a>>)), Fact(Cx("q", <<b>>)), Fact(Cx("r", <<b>>)), Fact(Cx("r", <<c>>)),
         Clause(Cx("p", <<X>>), AndG(<<Call(Cx("q", <<X>>)), Call(Cx("r", <<Y>>))>>)),
         Clause(Cx("s", <<X, Y>>), AndG(<<Call(Cx("q", <<X>>)), Call(Cx("r", <<Y>>)), Call(Cx("q", <<X>>))>>)),
         Clause(Cx("n", <<X>>), AndG(<<Call(Cx("r", <<X>>)), NotG(Call(Cx("q", <<X>>)))>>)),
         Clause(Cx("go", <<>>), AndG(<<Call(Cx("q", <<X>>)), Call(Cx("r", <<X>>))>>)) >>

(* (q(a) and p(b): ground queries which HAVE an answer; q(c): a ground query without one;      *)
(*  go: a query which is only a functor -- nothing to rename, yet it is a new query all the same) *)
Queries == {Cx("q", <<Z>>), Cx("p", <<Z>>), Cx("s", <<Z, Y>>), Cx("n", <<Z>>), Cx("q", <<c>>), Cx("zz", <<Z>>), Cx("q", <<a>>), Cx("p", <<b>>), Cx("go", <<>>)}
QueriesQ == {Cx("q", <<Z>>), Cx("p", <<Z>>), Cx("n", <<Z>>), Cx("q", <<c>>), Cx("q", <<a>>), Cx("go", <<>>)}
Nx == [mode |-> "next", fire |-> 0]
Sv(k) == [mode |-> "solve", fire |-> k]
Al(k) == [mode |-> "all", fire |-> k]
Ss == [mode |-> "ssolve", fire |-> 0]      \* stop_query(), then solve()
Sa == [mode |-> "sall", fire |-> 0]        \* stop_query(), then solve_all()
CallLists == { <<Nx, Nx, Nx, Nx>>, <<Sv(0), Sv(0), Sv(0)>>, <<Al(0)>>, <<Al(0), Al(0), Nx>>, <<Nx, Al(0), Sv(0)>>,
               <<Sv(1)>>, <<Sv(2)>>, <<Sv(3), Nx>>, <<Al(1)>>, <<Al(2)>>, <<Al(3)>>, <<Al(5)>>, <<Nx, Sv(1), Sv(0)>>,
               <<Sv(0), Al(2)>>, <<Sv(0), Ss, Ss, Ss>>, <<Nx, Ss, Nx, Nx>>, <<Sa>>, <<Sv(0), Sa>> }
CallListsQ == { <<Nx, Nx, Nx, Nx>>, <<Sv(0), Sv(0), Sv(0)>>, <<Sv(0), Ss, Ss>>, <<Al(0), Nx>>, <<Sv(1)>>, <<Sv(2)>>, <<Al(2)>>, <<Al(3)>>, <<Nx, Sv(1), Sv(0)>> }
Episodes  == {[query |-> qq, calls |-> cl] : qq \in Queries, cl \in CallLists}
EpisodesQ == {[query |-> qq, calls |-> cl] : qq \in QueriesQ, cl \in CallListsQ}
(* a query for a predicate WITHOUT clauses (nothing is fetched after its construction), then any query *)
EpisodesZ == {[query |-> Cx("zz", <<Z>>), calls |-> cl] : cl \in {<<Al(0), Nx>>, <<Sv(0), Sv(0), Sv(0)>>}}
EpisodesA == {[query |-> qq, calls |-> cl] : qq \in Queries, cl \in {<<Al(0), Nx>>, <<Nx, Nx, Nx, Nx>>}}
Plans ==   {<<e1>> : e1 \in Episodes}
      \cup {<<e1, e2>> : e1 \in EpisodesZ, e2 \in EpisodesA}
      \cup {<<e1, e2>> : e1 \in EpisodesQ, e2 \in EpisodesQ}
      \cup (IF Thorough THEN {<<e1, e2, e3>> : e1 \in {e \in EpisodesQ : \E i \in DOMAIN e.calls : e.calls[i].fire > 0},
                                               e2 \in {e \in EpisodesQ : e.query = Cx("p", <<Z>>)}, e3 \in EpisodesQ}
            ELSE {})

VARIABLE plan0
mcvars == <<allvars, plan0>>

Init ==
    \E pl \in Plans :
       /\ plan = pl /\ plan0 = pl
       /\ prog = KB /\ query = Cx("none", <<>>)
       /\ nodes = <<>> /\ stack = <<>> /\ ret = NoneR /\ nextId = 0 /\ stop = FALSE
       /\ outbuf = <<>> /\ hist = <<>> /\ phase = "between" /\ acts = {} /\ steps = 0
       /\ fireAt = 0 /\ crSeen = 0 /\ lastAct = ""
       /\ calls = <<>> /\ cur = NoCall /\ tainted = FALSE /\ reports = <<>> /\ epno = 0

Next == SessionNext /\ UNCHANGED plan0
Spec == Init /\ [][Next]_mcvars
WithinBudget == steps <= MaxSteps
Terminates == steps < MaxSteps

AllDone == plan = <<>> /\ phase = "between"

(* ------------------------------ emission -------------------------------- *)
RECURSIVE PackGoal(_), PackGoals(_)
PackGoal(g) == CASE g.g = "call" -> [g |-> "call", t |-> Pack(g.t)]
                 [] g.g = "bip"  -> [g |-> "bip", f |-> g.f, a |-> PackSeq(g.a)]
                 [] g.g = "nil"  -> [g |-> "nil"]
                 [] OTHER -> [g |-> g.g, gs |-> PackGoals(g.gs)]
PackGoals(gs) == IF gs = <<>> THEN <<>> ELSE <<PackGoal(Head(gs))>> \o PackGoals(Tail(gs))
RECURSIVE PackProg(_)
PackProg(pg) == IF pg = <<>> THEN <<>>
                ELSE <<[head |-> Pack(Head(pg).head), body |-> PackGoal(Head(pg).body)]>> \o PackProg(Tail(pg))
RECURSIVE PackAnsList(_)
PackAnsList(l) == IF l = <<>> THEN <<>> ELSE <<PackSeq(Head(l))>> \o PackAnsList(Tail(l))
RECURSIVE PackPlan(_)
PackPlan(pl) == IF pl = <<>> THEN <<>>
                ELSE <<[query |-> Pack(Head(pl).query), calls |-> Head(pl).calls]>> \o PackPlan(Tail(pl))
RECURSIVE PackReports(_)
PackReports(rs) == IF rs = <<>> THEN <<>>
                   ELSE LET r == Head(rs) IN
                        <<[ep |-> r.ep, mode |-> r.mode, constrained |-> ~r.free,     \* (a timed-out solve_all is constrained too: a PREFIX of `list`, then the timeout)
                           kind |-> r.want.kind, ans |-> PackSeq(r.want.ans), list |-> PackAnsList(r.want.list),
                           timeout |-> r.want.timeout, got |-> PackAnsList(r.rep.list), gotkind |-> r.rep.kind]>>
                        \o PackReports(Tail(rs))
RECURSIVE SetToSeq(_)
SetToSeq(S) == IF S = {} THEN <<>> ELSE LET x == CHOOSE y \in S : TRUE IN <<x>> \o SetToSeq(S \ {x})
Case == [ t |-> "session", slice |-> Slice, prog |-> PackProg(prog), plan |-> PackPlan(plan0),
          reports |-> PackReports(reports), status |-> "ok", path |-> SetToSeq(acts) ]
Emit == AllDone => PrintT(<<"CASE", ToJson(Case)>>)

=============================================================================
