------------------------------- MODULE Funcs -------------------------------
(***************************************************************************)
(* Built-in FUNCTIONS (SFunction): add, subtract, multiply, divide, join.  *)
(* EvalFn(t, b) gives the value of a function term under bindings b:       *)
(*     [st |-> "ok",  v |-> term]   the documented value                   *)
(*     [st |-> "out", v |-> NoT]    outside every claim (unbound or        *)
(*                                  non-numeric argument, integer overflow,*)
(*                                  integer division by zero, a value this *)
(*                                  exact arithmetic cannot represent)     *)
(* Arithmetic = left-to-right fold; i64 when all arguments are integers    *)
(* (truncating division), f64 with integers converted when any is a float. *)
(***************************************************************************)
EXTENDS Numbers

OutV == ValS("out")
IsOut(v) == v.tag = "out"

(* integer steps when an operand is a neighbour of a large power of two (d # 0): the big parts are added as   *)
(* usual, the offsets (and an operand which is itself -1, 0 or 1) are added apart; the result must again be at *)
(* most 1 away from an n * 2^e; multiplication by 0, 1 and -1 only; everything else is outside the claim       *)
Big(v)   == [v EXCEPT !.d = 0]
IsUnit(v) == v.d = 0 /\ NormV(v).e = 0 /\ Abs(NormV(v).n) <= 1          \* the integers -1, 0, 1
UnitOf(v) == NormV(v).n
(* (a sum that n * 2^e can express itself is written that way: 1073741823 + 1 is 2^30, not "1073741823 and one more") *)
WithD(v, dd) == IF Abs(dd) > 1 THEN OutV
                ELSE LET w == NormV(v) IN
                     IF dd = 0 THEN w
                     ELSE IF w.n = 0 THEN Val(dd, 0)
                     ELSE IF w.e >= 0 /\ BitLen(w.n) + w.e <= 30 THEN NormV(Val(w.n * Pow2(w.e) + dd, 0))
                     ELSE [w EXCEPT !.d = dd]
AddOff(x, y) ==
    IF IsUnit(y) THEN WithD(Big(x), x.d + UnitOf(y))
    ELSE IF IsUnit(x) THEN WithD(Big(y), y.d + UnitOf(x))
    ELSE IF CanAlign(Big(x), Big(y)) THEN (LET bsum == AddV(Big(x), Big(y)) IN IF bsum.n = 0 THEN Val(x.d + y.d, 0) ELSE WithD(bsum, x.d + y.d))
    ELSE OutV
NegOff(x) == ValD(-x.n, x.e, -x.d)
IntStepOff(op, acc, x) ==
    CASE op = "add"      -> AddOff(acc, x)
      [] op = "subtract" -> AddOff(acc, NegOff(x))
      [] op = "multiply" -> IF IsUnit(x) THEN (IF UnitOf(x) = 0 THEN Val(0, 0) ELSE IF UnitOf(x) = 1 THEN acc ELSE NegOff(acc))
                            ELSE IF IsUnit(acc) THEN (IF UnitOf(acc) = 0 THEN Val(0, 0) ELSE IF UnitOf(acc) = 1 THEN x ELSE NegOff(x))
                            ELSE OutV
      [] OTHER -> OutV

IntStep(op, acc, x) ==
    IF acc.d # 0 \/ x.d # 0
    THEN (LET r == IntStepOff(op, acc, x) IN IF IsOut(r) THEN r ELSE IF FitsI64(r) THEN r ELSE OutV)
    ELSE
    LET r == CASE op = "add"      -> IF CanAlign(acc, x) THEN AddV(acc, x) ELSE IF IsUnit(x) \/ IsUnit(acc) THEN AddOff(acc, x) ELSE OutV
               [] op = "subtract" -> IF CanAlign(acc, x) THEN SubV(acc, x) ELSE IF IsUnit(x) \/ IsUnit(acc) THEN AddOff(acc, NegOff(x)) ELSE OutV
               [] op = "multiply" -> IF CanMul(acc, x) THEN MulV(acc, x) ELSE OutV
               [] op = "divide"   -> IF CanIntDiv(acc, x) THEN IntDivV(acc, x) ELSE OutV
    IN IF IsOut(r) THEN r ELSE IF FitsI64(r) THEN r ELSE OutV

(* a float step with a neighbour of a power of two is exact only while the result is an integer below 2^53 *)
ExactSmallInt(r) == Finite(r) /\ ~IsOut(r) /\ NormV(r).e >= 0 /\ Mag(Big(r)) <= 53
FltStep(op, acc, x) ==
    IF ~Finite(acc) THEN OutV        \* inf/nan only modelled as a final result
    ELSE IF acc.d # 0 \/ x.d # 0
    THEN (IF ExactSmallInt(acc) /\ ExactSmallInt(x) /\ op # "divide"
          THEN (LET r == IntStepOff(op, acc, x) IN IF ~IsOut(r) /\ ExactSmallInt(r) THEN r ELSE OutV)
          ELSE OutV)                 \* an operand that is no f64 is rounded first: not modelled
    ELSE CASE op = "add"      -> IF CanAlign(acc, x) THEN AddV(acc, x)
                                   ELSE IF (IsUnit(x) \/ IsUnit(acc)) /\ ExactSmallInt(acc) /\ ExactSmallInt(x)
                                   THEN (LET r == AddOff(acc, x) IN IF ~IsOut(r) /\ ExactSmallInt(r) THEN r ELSE OutV) ELSE OutV
           [] op = "subtract" -> IF CanAlign(acc, x) THEN SubV(acc, x)
                                   ELSE IF (IsUnit(x) \/ IsUnit(acc)) /\ ExactSmallInt(acc) /\ ExactSmallInt(x)
                                   THEN (LET r == AddOff(acc, NegOff(x)) IN IF ~IsOut(r) /\ ExactSmallInt(r) THEN r ELSE OutV) ELSE OutV
           [] op = "multiply" -> IF CanMul(acc, x) THEN MulV(acc, x) ELSE OutV
           [] op = "divide"   -> IF CanFltDiv(acc, x) THEN FltDivV(acc, x) ELSE OutV

RECURSIVE FoldV(_, _, _, _)
FoldV(op, isFlt, acc, vs) ==
    IF IsOut(acc) \/ vs = <<>> THEN acc
    ELSE FoldV(op, isFlt,
               IF isFlt THEN FltStep(op, acc, Head(vs)) ELSE IntStep(op, acc, Head(vs)),
               Tail(vs))

RECURSIVE ValsOf(_)
ValsOf(ts) == IF ts = <<>> THEN <<>> ELSE <<ValOf(Head(ts))>> \o ValsOf(Tail(ts))

RECURSIVE WalkSeq(_, _)
WalkSeq(ts, b) == IF ts = <<>> THEN <<>> ELSE <<Walk(Head(ts), b)>> \o WalkSeq(Tail(ts), b)

EvalArith(op, args, b) ==
    LET ws == WalkSeq(args, b) IN
    IF ws = <<>> \/ \E i \in DOMAIN ws : ~IsNum(ws[i]) \/ (ws[i].k = "int" /\ ~FitsI64(ValOf(ws[i])))
                 \/ (ws[i].k = "flt" /\ ws[i].s \in {"+1", "-1"} /\ Mag(Val(ws[i].n, ws[i].e)) > 53)          \* (not an f64)
    THEN [st |-> "out", v |-> NoT]
    ELSE
      LET isFlt == \E i \in DOMAIN ws : ws[i].k = "flt"
          vs    == ValsOf(ws)
          nonfin == \E i \in DOMAIN vs : ~Finite(vs[i])
          r == IF nonfin THEN OutV
               ELSE CASE op = "add"      -> FoldV(op, isFlt, Val(0, 0), vs)
                      [] op = "multiply" -> FoldV(op, isFlt, Val(1, 0), vs)
                      [] OTHER           -> FoldV(op, isFlt, Head(vs), Tail(vs))
      IN IF IsOut(r) THEN [st |-> "out", v |-> NoT]
         ELSE [st |-> "ok", v |-> IF isFlt THEN FltTerm(r) ELSE IntTerm(r)]

(* ---- join ---------------------------------------------------------------- *)
IsPunct(s) == s \in {",", ".", "?", "!"}

(* the words contributed by one argument: its resolved value, or the elements *)
(* of the (proper) list it resolves to                                         *)
WordsOf(t, b) == LET r == Resolve(t, b) IN IF r.k = "list" THEN r.a ELSE <<r>>
JoinOk(t, b)  == LET r == Resolve(t, b) IN
                 IF r.k = "list" THEN r.t = <<>> /\ \A i \in DOMAIN r.a :
                                        r.a[i].k = "atom" \/ (r.a[i].k = "int" /\ r.a[i].e = 0)
                 ELSE r.k = "atom" \/ (r.k = "int" /\ r.e = 0)
WordText(w) == IF w.k = "atom" THEN w.s ELSE ToString(w.n)

RECURSIVE AllWords(_, _)
AllWords(args, b) == IF args = <<>> THEN <<>>
                     ELSE WordsOf(Head(args), b) \o AllWords(Tail(args), b)

RECURSIVE JoinText(_, _, _)
JoinText(ws, out, first) ==
    IF ws = <<>> THEN out
    ELSE LET s == WordText(Head(ws)) IN
         IF IsPunct(s) THEN JoinText(Tail(ws), out \o s, FALSE)
         ELSE IF first THEN JoinText(Tail(ws), out \o s, FALSE)
         ELSE JoinText(Tail(ws), out \o " " \o s, FALSE)

EvalJoin(args, b) ==
    IF \E i \in DOMAIN args : ~JoinOk(args[i], b)
    THEN [st |-> "out", v |-> NoT]
    ELSE [st |-> "ok", v |-> Atom(JoinText(AllWords(args, b), "", TRUE))]

ArithNames == {"add", "subtract", "multiply", "divide"}
EvalFn(t, b) ==
    IF t.s \in ArithNames THEN EvalArith(t.s, t.a, b)
    ELSE IF t.s = "join" THEN EvalJoin(t.a, b)
    ELSE [st |-> "out", v |-> NoT]

=============================================================================
