------------------------------ MODULE MC_Lists ------------------------------
(***************************************************************************)
(* C15: the list constructor, and C10 (pure part): renaming apart.         *)
(*  slice "mklist": every element sequence up to a length bound x vbar;    *)
(*     TLC steps the make_linked_list machine and checks that the result   *)
(*     is well formed and denotes the documented list.                     *)
(*  slice "rename": every vector of terms (a clause: head and body         *)
(*     arguments) with NAMED variables; TLC computes the renaming and      *)
(*     checks its postconditions; the harness replays recreate_variables.  *)
(***************************************************************************)
EXTENDS Lists, Json

CONSTANTS Tier, Slice

VARIABLE m

Thorough == Tier = "thorough"
a == Atom("a")
X == Var(1, "$X")
Y == Var(2, "$Y")

(* ------------------------------ mklist ---------------------------------- *)
ElemsA == {a, IntT(1), X, Anon, Cx("f", <<a>>), EmptyList, Lst(<<Atom("b")>>),
           LstT(<<Atom("b")>>, Y), Lst(<<Lst(<<a>>)>>)}
ElemsB == {a, X, Anon, EmptyList, Lst(<<Atom("b")>>), LstT(<<Atom("b")>>, Y)}
ElemsC == {a, EmptyList, Lst(<<Atom("b"), Atom("c")>>), X}

Seqs ==   {<<>>}
     \cup {<<e1>> : e1 \in ElemsA}
     \cup {<<e1, e2>> : e1 \in ElemsA, e2 \in ElemsA}
     \cup {<<e1, e2, e3>> : e1 \in ElemsB, e2 \in ElemsA, e3 \in ElemsA}
     \cup (IF Thorough
           THEN {<<e1, e2, e3, e4>> : e1 \in ElemsC, e2 \in ElemsB, e3 \in ElemsB, e4 \in ElemsA}
                \cup {<<e1, e2, e3, e4, e5>> : e1 \in ElemsC, e2 \in ElemsC, e3 \in ElemsC, e4 \in ElemsB, e5 \in ElemsA}
           ELSE {<<e1, e2, e3, e4>> : e1 \in ElemsC, e2 \in ElemsC, e3 \in ElemsC, e4 \in ElemsB}
                \cup {<<e1, e2, e3, e4, e5>> : e1 \in {a}, e2 \in ElemsC, e3 \in {a, EmptyList}, e4 \in ElemsC, e5 \in ElemsB})

MkInputs == {[vbar |-> v, terms |-> s] : v \in BOOLEAN, s \in Seqs}

(* ------------------------------ rename ---------------------------------- *)
V(n) == Var(0, n)
RnTerms == {a, IntT(7), Flt(3, -1), V("$X"), V("$Y"), Anon, EmptyList,
            Cx("f", <<V("$X")>>), Cx("g", <<V("$X"), V("$Y")>>), Cx("g", <<V("$X"), V("$X")>>),
            Lst(<<V("$X")>>), Lst(<<a, EmptyList>>), Lst(<<a, Lst(<<V("$Y")>>)>>), Lst(<<EmptyList>>),
            LstT(<<V("$X")>>, V("$T")), LstT(<<a, V("$Y")>>, Anon), Lst(<<Lst(<<Lst(<<V("$X")>>)>>)>>),
            Cx("f", <<Lst(<<V("$Y"), EmptyList>>)>>), Fn("add", <<V("$X"), IntT(1)>>),
            Lst(<<V("$X"), V("$Y"), V("$X")>>), Cx("h", <<>>), Lst(<<Cx("f", <<EmptyList>>), Lst(<<a, a>>)>>),
            (* variables that occur only inside a function term, one and two levels down *)
            Cx("f", <<Fn("add", <<V("$X"), IntT(1)>>)>>), Lst(<<Fn("add", <<V("$Y"), IntT(1)>>), a>>),
            Cx("g", <<Cx("f", <<Fn("join", <<V("$X"), a>>)>>), a>>), Fn("add", <<Fn("multiply", <<V("$X"), IntT(2)>>), V("$Y")>>),
            Cx("f", <<Cx("f", <<V("$Y")>>)>>)}
RnTermsQ == {a, V("$X"), V("$Y"), Anon, EmptyList, Cx("g", <<V("$X"), V("$Y")>>), Lst(<<a, EmptyList>>),
             Lst(<<a, Lst(<<V("$Y")>>)>>), LstT(<<V("$X")>>, V("$T")), Lst(<<Lst(<<Lst(<<V("$X")>>)>>)>>),
             Fn("add", <<V("$X"), IntT(1)>>), Lst(<<EmptyList>>),
             Cx("f", <<Fn("add", <<V("$X"), IntT(1)>>)>>), Lst(<<Fn("add", <<V("$Y"), IntT(1)>>), a>>)}
RnVecs == LET U == IF Thorough THEN RnTerms ELSE RnTermsQ IN
             {<<t1>> : t1 \in RnTerms} \cup {<<t1, t2>> : t1 \in RnTerms, t2 \in RnTerms}
        \cup {<<t1, t2, t3>> : t1 \in U, t2 \in RnTermsQ, t3 \in U}
RnInputs == {[terms |-> v, base |-> bs] : v \in RnVecs, bs \in {0, 5}}

(* ------------------------------ model ----------------------------------- *)
Init == \/ /\ Slice = "mklist"
           /\ \E k \in MkInputs : m = [kind |-> "mklist", mk |-> MkInit(k.vbar, k.terms)]
        \/ /\ Slice = "rename"
           /\ \E k \in RnInputs : m = [kind |-> "rename", terms |-> k.terms, base |-> k.base,
                                       phase |-> "call", out |-> <<>>, names |-> <<>>]

MkLoop == /\ m.kind = "mklist" /\ m.mk.pc = "loop"
          /\ m' = [m EXCEPT !.mk = MkStep(m.mk)]

Rename == /\ m.kind = "rename" /\ m.phase = "call"
          /\ LET names == NameSeq(m.terms, <<>>)
             IN m' = [m EXCEPT !.phase = "done", !.names = names,
                               !.out = ReIdSeq(m.terms, names, m.base)]

Next == MkLoop \/ Rename
Spec == Init /\ [][Next]_m

(* ------------------------------ properties ------------------------------ *)
MkDone == m.kind = "mklist" /\ m.mk.pc = "done"
Claimed == MkDone /\ InContract(m.mk.vbar, m.mk.terms)
(* C15: the constructor's result is well formed ...                           *)
MkWF == Claimed => WF(m.mk.result)
(* ... and denotes the documented list                                        *)
MkContract == Claimed => Abs(m.mk.result) = Contract(m.mk.vbar, m.mk.terms)
(* the recorded length equals the number of cells                             *)
MkCount == Claimed => m.mk.result.count = Len(Abs(m.mk.result).a) + Len(Abs(m.mk.result).t)

RnDone == m.kind = "rename" /\ m.phase = "done"
(* strip variables to compare everything that is not a variable                *)
RECURSIVE Skel(_), SkelSeq(_)
Skel(t) == CASE t.k = "var" -> Var(0, t.s)
             [] t.k \in {"cx", "fn"} -> [t EXCEPT !.a = SkelSeq(t.a)]
             [] t.k = "list" -> [t EXCEPT !.a = SkelSeq(t.a),
                                          !.t = IF t.t = <<>> THEN <<>> ELSE <<Skel(t.t[1])>>]
             [] OTHER -> t
SkelSeq(s) == IF s = <<>> THEN <<>> ELSE <<Skel(Head(s))>> \o SkelSeq(Tail(s))
RECURSIVE VarsSeq(_)
VarsSeq(s) == IF s = <<>> THEN {} ELSE
              LET RECURSIVE Vs(_)
                  Vs(t) == CASE t.k = "var" -> {t}
                             [] t.k \in {"cx", "fn"} -> UNION {Vs(t.a[i]) : i \in DOMAIN t.a}
                             [] t.k = "list" -> UNION {Vs(t.a[i]) : i \in DOMAIN t.a}
                                                \cup (IF t.t = <<>> THEN {} ELSE Vs(t.t[1]))
                             [] OTHER -> {}
              IN Vs(Head(s)) \cup VarsSeq(Tail(s))
(* C10: nothing but variables changes *)
RnShape == RnDone => SkelSeq(m.out) = SkelSeq(m.terms)
(* C10: same name <=> same id, and every id is fresh (> base) *)
RnConsistent == RnDone =>
    \A v \in VarsSeq(m.out), w \in VarsSeq(m.out) :
        /\ (v.s = w.s) <=> (v.n = w.n)
        /\ v.n > m.base

(* ------------------------------ emission -------------------------------- *)
Case ==
    IF m.kind = "mklist"
    THEN [ t |-> "mklist", slice |-> Slice, vbar |-> m.mk.vbar, terms |-> PackSeq(m.mk.terms),
           status |-> IF InContract(m.mk.vbar, m.mk.terms) THEN "ok" ELSE "out",
           expect |-> Pack(Contract(m.mk.vbar, m.mk.terms)),
           path |-> <<"mklist", Len(m.mk.terms)>> ]
    ELSE [ t |-> "rename", slice |-> Slice, terms |-> PackSeq(m.terms), base |-> m.base,
           status |-> "ok", expect |-> PackSeq(Canon(m.out)), nvars |-> Len(m.names),
           path |-> <<"rename", Len(m.terms)>> ]
Emit == (MkDone \/ RnDone) => PrintT(<<"CASE", ToJson(Case)>>)

=============================================================================
