"""Trace validation jobs: executions recorded from the real engine, validated by TLC
against the trace specification (implementation -> specification direction)."""
import json, os, re, shutil, subprocess, time
import vcheck

TRACE_CFG = """SPECIFICATION TraceSpec
CONSTANTS
  Depth = 14
  Bug_ClauseLoopIgnoresCut = FALSE
  Bug_OrTailAfterCut = FALSE
  Bug_NotStaysArmed = FALSE
  AtomCodes <- AtomCodesDef
  FmtPieces <- FmtPiecesDef
INVARIANTS
  TFresh
  TAcyclic
PROPERTIES
  TCutCommits
  TNoRetry
  TCutIsLocal
CHECK_DEADLOCK FALSE
"""


def has_goal(prog, pred):
    def g(x):
        if pred(x):
            return True
        return any(g(y) for y in x.get("gs", []))
    return any(g(c["body"]) for c in prog)


def features(prog):
    cut = has_goal(prog, lambda x: x.get("g") == "bip" and x.get("f") == "!")
    neg = has_goal(prog, lambda x: x.get("g") == "not")
    prt = has_goal(prog, lambda x: x.get("g") == "bip" and x.get("f") in ("print", "print_list", "nl"))
    return cut, neg, prt


def relevant(prop, prog):
    """Does a recorded run of this program exercise the property?"""
    cut, neg, prt = features(prog)
    return {"C01": not cut and not neg, "C02": cut, "C03": neg, "C04": prt, "C05": True, "C10": True}.get(prop, False)


def classify(rej, lines):
    """Which properties does a rejected run speak about?  A divergence of a run whose program
    contains `!` is attributed to C02, one with not(...) to C03, a reply that differs only in the
    text written to C04, anything in a program without cut / not to C01, and any divergence after
    the engine's first "no more" to C05."""
    at = rej["at"]
    prog = None
    for i in range(min(at, len(lines)) - 1, -1, -1):
        if lines[i].startswith('{"e":"program"'):
            prog = json.loads(lines[i])
            break
    props = set()
    if prog:
        cut, neg, prt = features(prog["prog"])
        if cut:
            props.add("C02")
        if neg:
            props.add("C03")
        if not cut and not neg:
            props.add("C01")
        if rej.get("retdiff") == "out" or (prt and rej.get("retdiff") == ""):
            props.add("C04")
    if rej.get("exhausted"):
        props.add("C05")
    return props, prog


UNIFY_CFG = """SPECIFICATION Spec
INVARIANTS
  MachineAcyclic
  MachineNoAnon
  Consumed
CHECK_DEADLOCK FALSE
"""


def validate(trace_path, wd, timeout, module="TraceSolver", cfg=None):
    for f in os.listdir(vcheck.SPEC):
        if f.endswith(".tla"):
            shutil.copy(os.path.join(vcheck.SPEC, f), wd)
    with open(os.path.join(wd, module + ".cfg"), "w") as f:
        f.write(cfg or TRACE_CFG)
    env = dict(os.environ, TRACE=trace_path,
               JAVA_TOOL_OPTIONS="-Xss512m -Dtlc2.tool.queue.IStateQueue=StateDeque")
    out_path = os.path.join(wd, "tlc-trace.out")
    t0 = time.time()
    # TLC's output is filtered while it is written: on an invariant violation TLC prints the whole behaviour
    # (one state per trace event, each with every solution node), which can be many gigabytes
    with open(out_path, "w") as out:
        p = subprocess.Popen(["timeout", str(timeout), "tlc", "-workers", "1", "-metadir", os.path.join(wd, "md"), "-cleanup",
                              "-noGenerateSpecTE", "-config", module + ".cfg", module + ".tla"],
                             cwd=wd, env=env, stdout=subprocess.PIPE, stderr=subprocess.STDOUT, text=True, errors="replace")
        kept = 0
        dumping = False
        for line in p.stdout:
            if line.startswith("Error: The behavior up to this point") or line.startswith("State 1:"):
                dumping = True                   # the behaviour dump: not kept
            if dumping and (line.startswith('<<"') or "states generated" in line or line.startswith("Finished in")):
                dumping = False
            if dumping or line.startswith("/\\ ") or line.startswith("State "):
                continue
            if kept < 400000:
                out.write(line[:20000]); kept += 1
        p.wait()
    shutil.rmtree(os.path.join(wd, "md"), ignore_errors=True)
    res = dict(accepted=None, rejected=None, rejections=[], violated=[], states=0, transitions=0, wall=time.time() - t0, rc=p.returncode, out=out_path)
    for line in open(out_path, errors="replace"):
        if line.startswith('<<"VALIDATED"'):
            m = re.findall(r"\d+", line)
            res["validated"] = tuple(int(x) for x in m)       # TraceSolver: runs accepted, runs rejected, trace lines
            if module == "TraceSolver" and int(m[1]) == 0:
                res["accepted"] = (int(m[0]), int(m[2]))
        elif line.startswith('<<"SPECDIFF"'):
            res.setdefault("specdiff", []).append(line.strip())
        elif line.startswith('<<"IDS"'):
            res.setdefault("ids", []).append(line.strip())
        elif line.startswith('<<"REJECTED"'):
            res["rejections"].append(line.strip())
            if res["rejected"] is None:
                res["rejected"] = line.strip()
        m = vcheck.STATS_RE.search(line)
        if m:
            res["transitions"], res["states"] = int(m.group(1)), int(m.group(2))
        m = re.search(r"(Invariant|Action property|Temporal property) (\w+) (is|was) violated", line)
        if m:
            res["violated"].append(m.group(2))
    if p.returncode == 124:
        raise vcheck.ToolError("TLC trace validation timed out (%s)" % out_path)
    return res


def parse_rejected(line):
    # <<"REJECTED", [at |-> 12, runs_ok |-> 3, exhausted |-> FALSE, retdiff |-> "", event |-> "{...}", model |-> [...]]>>
    rej = {}
    m = re.search(r"at \|-> (\d+)", line); rej["at"] = int(m.group(1)) if m else 0
    m = re.search(r"runs_ok \|-> (\d+)", line); rej["runs_ok"] = int(m.group(1)) if m else 0
    rej["exhausted"] = "exhausted |-> TRUE" in line
    m = re.search(r'retdiff \|-> "(\w*)"', line); rej["retdiff"] = m.group(1) if m else ""
    m = re.search(r'model \|-> (\[.*\])\]>>', line); rej["model"] = m.group(1)[:400] if m else ""
    return rej


MACHINE_INVARIANTS = "TFresh TAcyclic TCutCommits TNoRetry TCutIsLocal".split()


UNIFY_KINDS = {"success": {"C06"}, "values": {"C06"}, "cycle": {"C08"}, "reverse-cycle": {"C08"}, "anon-bound": {"C09"},
               "reverse-success": {"C07"}, "reverse-values": {"C07"}, "panic": {"C06", "C08"}, "crash": {"C06", "C08"},
               "hang": {"C06", "C08"}, "died-outside-a-call": {"C06"}}


def run_unify(jobname, job, prop, tier, seed, wd, acc):
    """Sessions of unifications over random terms recorded from the real unify(), validated against Unify.tla."""
    os.makedirs(wd, exist_ok=True)
    runs = job["runs"][tier]
    trace = os.path.join(wd, "utrace.ndjson")
    p = subprocess.run([vcheck.HARNESS_BIN, "gen-unify-trace", trace, str(seed), str(runs)], cwd=wd,
                       stdout=subprocess.PIPE, stderr=subprocess.PIPE, text=True)
    if p.returncode != 0:
        raise vcheck.ToolError("gen-unify-trace failed: %s" % p.stderr[-1000:])
    lines = open(trace).read().split("\n")
    res = validate(trace, wd, job.get("timeout", {}).get(tier, 1800), module="TraceUnify", cfg=UNIFY_CFG)
    if res["violated"]:
        raise vcheck.ToolError("the specification itself violates %s on a recorded input (Unify.tla): see %s" % (res["violated"], res["out"]))
    if "validated" not in res:
        raise vcheck.ToolError("trace validation ended without a verdict (exit %d, %s)" % (res["rc"], res["out"]))
    nok, nskip, nrej, nanon = res["validated"][:4]
    vcheck.log("trace validation %s: %d sessions, %d unifications validated (%d with $_), %d sessions outside the claim, %d rejected, %d states, %.1fs"
               % (jobname, runs, nok, nanon, nskip, nrej, res["states"], res["wall"]))
    for line in res["rejections"]:
        m = re.search(r'kind \|-> "([^"]*)"', line)
        kind = m.group(1) if m else "?"
        if kind.startswith("SPEC-ERROR"):
            raise vcheck.ToolError("Unify.tla is not symmetric on a recorded input: %s" % line[:600])
        m = re.search(r'at \|-> (\d+)', line); at = int(m.group(1)) if m else 0
        anon = "anon |-> TRUE" in line
        m = re.search(r'case \|-> ("(?:[^"\\]|\\.)*")', line)
        case = json.loads(json.loads(m.group(1))) if m and m.group(1) != '""' else {"t": "utrace", "line": at}
        props = set(UNIFY_KINDS.get(kind, {"C06"}))
        if anon and kind in ("success", "values", "reverse-success", "reverse-values"):
            props.add("C09")
        if prop in props:
            ev = lines[at - 1] if 0 < at <= len(lines) else ""
            acc["bad"].append({"job": jobname, "case": case,
                               "obs": {"prop": prop, "kind": "trace-" + kind,
                                       "detail": "recorded unification differs from Unify.tla in `%s` (trace line %d): engine logged %s" % (kind, at, ev[:300])}})
    mine = nanon if prop == "C09" else nok
    acc["evaluations"] += mine
    acc["kinds"]["%s:unify-trace-accepted" % prop] += mine
    for i in range(mine):
        acc["distinct"].add("utrace-%s-%d-%d" % (jobname, seed, i))
    if len(acc["samples"]) < 4:
        acc["samples"].append({"job": jobname, "recorded_session": [json.loads(l) for l in lines[:7] if l]})
    return dict(states=res["states"], transitions=res["transitions"], traces=mine,
                summary={"job": jobname, "module": "TraceUnify", "sessions_recorded": runs, "unifications_validated": nok,
                         "with_anonymous": nanon, "sessions_outside_claim": nskip, "sessions_rejected": nrej,
                         "events": len(lines), "states": res["states"], "tlc_s": round(res["wall"], 1)})


BIP_CFG = """SPECIFICATION Spec
CONSTANTS
  AtomCodes <- AtomCodesDef
  FmtPieces <- FmtPiecesDef
INVARIANTS
  Consumed
CHECK_DEADLOCK FALSE
"""
CMP_OPS = ("equal", "less_than", "less_than_or_equal", "greater_than", "greater_than_or_equal")


def bip_props(f, case, malformed):
    """Which properties does a (recorded) built-in call speak about?"""
    if f in CMP_OPS:
        return {"C14"}
    if f == "append":
        return {"C16", "C15"} if malformed else {"C16"}
    if f in ("include", "exclude"):
        return {"C17", "C15"} if malformed else {"C17"}
    if f in ("count", "functor"):
        return {"C17"}
    if f in ("print", "print_list", "nl"):
        return {"C04"}
    if f == "unify":
        fns = set(re.findall(r'"k": ?"fn", ?"s": ?"(\w+)"', json.dumps(case)))
        props = {"C13"}
        if fns & {"add", "subtract", "multiply", "divide"}:
            props.add("C12")
        if "join" in fns:
            props.add("C17")
        return props
    return set()


def run_bip(jobname, job, prop, tier, seed, wd, acc):
    """Random calls of the built-in predicates / functions recorded from the real engine, validated against Builtins.tla."""
    os.makedirs(wd, exist_ok=True)
    runs = job["runs"][tier]
    trace = os.path.join(wd, "btrace.ndjson")
    p = subprocess.run([vcheck.HARNESS_BIN, "gen-bip-trace", trace, str(seed), str(runs)], cwd=wd,
                       stdout=subprocess.PIPE, stderr=subprocess.PIPE, text=True)
    if p.returncode != 0:
        raise vcheck.ToolError("gen-bip-trace failed: %s" % p.stderr[-1000:])
    lines = open(trace).read().split("\n")
    res = validate(trace, wd, job.get("timeout", {}).get(tier, 1800), module="TraceBuiltins", cfg=BIP_CFG)
    if res["violated"] or "validated" not in res:
        raise vcheck.ToolError("trace validation of the built-in calls ended without a verdict (exit %d, %s)" % (res["rc"], res["out"]))
    nok, nskip, nrej = res["validated"][:3]
    counts = {}
    for line in open(res["out"], errors="replace"):
        if line.startswith('<<"COUNTS"'):
            m = re.search(r'<<"COUNTS", (".*")>>', line)
            if m:
                counts = json.loads(json.loads(m.group(1)))
    vcheck.log("trace validation %s: %d calls, %d validated, %d outside the claim, %d rejected, %.1fs" % (jobname, runs, nok, nskip, nrej, res["wall"]))
    for line in res["rejections"]:
        m = re.search(r'kind \|-> "([^"]*)"', line); kind = m.group(1) if m else "?"
        m = re.search(r'f \|-> "([^"]*)"', line); f = m.group(1) if m else "?"
        m = re.search(r'at \|-> (\d+)', line); at = int(m.group(1)) if m else 0
        malformed = "malformed |-> TRUE" in line
        m = re.search(r'case \|-> ("(?:[^"\\]|\\.)*")', line)
        case = json.loads(json.loads(m.group(1))) if m else {"t": "btrace", "line": at}
        if prop in bip_props(f, case, malformed):
            ev = lines[at - 1] if 0 < at <= len(lines) else ""
            acc["bad"].append({"job": jobname, "case": case,
                               "obs": {"prop": prop, "kind": "trace-" + kind,
                                       "detail": "recorded call of %s differs from Builtins.tla in `%s` (trace line %d): engine logged %s" % (f, kind, at, ev[:300])}})
    # evaluations of this property: validated calls of its built-ins (an `=` with a function term counts for C13; C12 / C17 by the function)
    mine = 0
    for f, n in counts.items():
        if f == "unify":
            mine += n if prop == "C13" else 0
        elif prop in bip_props(f, {}, False):
            mine += n
    if prop in ("C12", "C17") and "unify" in counts:
        # recount from the trace: validated `=` calls with an arithmetic / join function
        want = {"C12": ("add", "subtract", "multiply", "divide"), "C17": ("join",)}[prop]
        mine += sum(1 for l in lines if '"f":"unify"' in l and any('"s":"%s"' % w in l for w in want))
    acc["evaluations"] += mine
    acc["kinds"]["%s:bip-trace-accepted" % prop] += mine
    for i in range(mine):
        acc["distinct"].add("btrace-%s-%d-%d" % (jobname, seed, i))
    if len(acc["samples"]) < 4:
        acc["samples"].append({"job": jobname, "recorded_calls": [json.loads(l) for l in lines[:6] if l]})
    return dict(states=res["states"], transitions=res["transitions"], traces=mine,
                summary={"job": jobname, "module": "TraceBuiltins", "calls_recorded": runs, "calls_validated": nok,
                         "calls_outside_claim": nskip, "calls_rejected": nrej, "validated_by_builtin": counts,
                         "states": res["states"], "tlc_s": round(res["wall"], 1)})


def run(jobname, job, prop, tier, seed, wd, acc):
    if job.get("module") == "TraceBuiltins":
        return run_bip(jobname, job, prop, tier, seed, wd, acc)
    if job.get("module") == "TraceUnify":
        return run_unify(jobname, job, prop, tier, seed, wd, acc)
    os.makedirs(wd, exist_ok=True)
    runs = job["runs"][tier]
    trace = os.path.join(wd, "trace.ndjson")
    p = subprocess.run([vcheck.HARNESS_BIN, "gen-trace", trace, str(seed), str(runs)], cwd=wd,
                       stdout=subprocess.PIPE, stderr=subprocess.PIPE, text=True)
    if p.returncode != 0:
        raise vcheck.ToolError("gen-trace failed: %s" % p.stderr[-1000:])
    lines = open(trace).read().split("\n")
    progs = [json.loads(l) for l in lines if l.startswith('{"e":"program"')]
    nruns = len(progs)
    res = validate(trace, wd, job.get("timeout", {}).get(tier, 1800))
    vcheck.log("trace validation %s: %d runs, %d events, %d states, %.1fs -> %s" %
               (jobname, nruns, len(lines), res["states"], res["wall"],
                "accepted" if res["accepted"] else "%d runs REJECTED" % len(res["rejections"]) if res["rejections"]
                else "violated %s" % res["violated"]))
    if res["violated"]:
        # these are properties of the MACHINE on the recorded program, not of the implementation
        raise vcheck.ToolError("the specification itself violates %s on a recorded program (Solver.tla vs SLD.tla): see %s"
                               % (res["violated"], res["out"]))
    if "validated" not in res:
        raise vcheck.ToolError("trace validation ended without a verdict (exit %d, %s)" % (res["rc"], res["out"]))
    if res.get("specdiff"):
        raise vcheck.ToolError("Solver.tla and SLD.tla disagree on %d recorded program(s) (a defect of the specification, not of the implementation): %s  [see %s]"
                               % (len(res["specdiff"]), res["specdiff"][0][:500], res["out"]))
    rejected_runs = set()
    for line in res["rejections"]:
        rej = parse_rejected(line)
        props, prog = classify(rej, lines)
        if prog is not None:
            rejected_runs.add(prog.get("run"))
        ev = lines[rej["at"] - 1] if 0 < rej["at"] <= len(lines) else "end of trace"
        if prop in props:
            acc["bad"].append({"job": jobname,
                               "case": {"t": "trace", "prog": prog and prog["prog"], "query": prog and prog["query"],
                                        "family": prog and prog.get("family"), "trace_file": trace, "line": rej["at"]},
                               "obs": {"prop": prop, "kind": "trace-rejected",
                                       "detail": "the recorded execution is not a behaviour of Solver.tla: at trace line %d the engine logged %s while the model was at %s (%s)"
                                                 % (rej["at"], ev[:200], rej["model"], "reply differs in " + rej["retdiff"] if rej["retdiff"] else "event mismatch")}})
    for line in res.get("ids", []):
        m = re.search(r"at \|-> (\d+)", line); at = int(m.group(1)) if m else 0
        prog = None
        for i in range(min(at, len(lines)) - 1, -1, -1):
            if lines[i].startswith('{"e":"program"'):
                prog = json.loads(lines[i]); break
        if prog is not None:
            rejected_runs.add(prog.get("run"))
        if prop == "C10":
            ev = lines[at - 1] if 0 < at <= len(lines) else ""
            acc["bad"].append({"job": jobname,
                               "case": {"t": "trace", "prog": prog and prog["prog"], "query": prog and prog["query"], "trace_file": trace, "line": at},
                               "obs": {"prop": "C10", "kind": "trace-ids",
                                       "detail": "a clause was renamed in the middle of a search with fewer fresh ids than it has variable names: %s (%s)" % (ev[:200], line[:200])}})
    if prop == "C22":
        # All runs are recorded in ONE process, one after the other, each query built with make_query(): every run
        # but the first has a history.  A run which the specification rejects there but accepts when the same program
        # and query are recorded alone, as the first query of a fresh process, depended on the queries before it.
        seen = 0
        for line in list(res["rejections"]) + list(res.get("ids", [])):
            m = re.search(r"at \|-> (\d+)", line); at = int(m.group(1)) if m else 0
            prog = None
            for i in range(min(at, len(lines)) - 1, -1, -1):
                if lines[i].startswith('{"e":"program"'):
                    prog = json.loads(lines[i]); break
            if prog is None or not prog.get("run") or seen >= 12:
                continue
            seen += 1
            case = {"t": "trace", "prog": prog["prog"], "query": prog["query"], "family": prog.get("family"), "trace_file": trace, "line": at, "history": True, "seed": seed, "run": prog.get("run")}
            alone = replay(case, os.path.join(wd, "alone-%d" % seen))
            if not alone:
                ev = lines[at - 1] if 0 < at <= len(lines) else "end of trace"
                acc["bad"].append({"job": jobname, "case": case,
                                   "obs": {"prop": "C22", "kind": "trace-history-dependent",
                                           "detail": "run %s of the recording (after %s earlier queries in the same process) is not a behaviour of Solver.tla -- at trace line %d the engine logged %s -- "
                                                     "but the same program and query recorded alone in a fresh process is accepted" % (prog.get("run"), prog.get("run"), at, ev[:200])}})
    mine = [pg for pg in progs if (relevant(prop, pg["prog"]) or (prop == "C22" and pg.get("run"))) and pg.get("run") not in rejected_runs]
    acc["evaluations"] += len(mine)
    acc["kinds"]["%s:trace-accepted" % prop] += len(mine)
    fams = {}
    for pg in mine:
        acc["distinct"].add("trace-%s-%d-%s" % (jobname, seed, pg.get("run")))
        fams[str(pg.get("family"))] = fams.get(str(pg.get("family")), 0) + 1
    if len(acc["samples"]) < 4 and lines:
        end = next((i for i, l in enumerate(lines[1:], 1) if l.startswith('{"e":"program"')), len(lines))
        acc["samples"].append({"job": jobname, "recorded_run": [json.loads(l) for l in lines[:min(end, 25)] if l]})
    return dict(states=res["states"], transitions=res["transitions"], traces=len(mine),
                summary={"job": jobname, "module": "TraceSolver", "runs_recorded": nruns, "runs_validated": res["validated"][0],
                         "runs_rejected": res["validated"][1], "runs_for_this_property": len(mine), "by_family": fams,
                         "events": len(lines), "states": res["states"], "tlc_s": round(res["wall"], 1)})


def replay(case, wd):
    """Re-record the program of a rejected run on the current tree and validate it again."""
    os.makedirs(wd, exist_ok=True)
    pj = os.path.join(wd, "program.json")
    json.dump({"prog": case["prog"], "query": case["query"]}, open(pj, "w"))
    trace = os.path.join(wd, "trace.ndjson")
    p = subprocess.run([vcheck.HARNESS_BIN, "record", pj, trace], cwd=wd, stdout=subprocess.PIPE, stderr=subprocess.PIPE, text=True)
    if p.returncode != 0:
        raise vcheck.ToolError("record failed: %s" % p.stderr[-1000:])
    res = validate(trace, wd, 600)
    if res["violated"] or "validated" not in res:
        raise vcheck.ToolError("trace validation of the replay ended without a verdict (%s)" % res["out"])
    out = [parse_rejected(l) for l in res["rejections"]]
    for l in res.get("ids", []):
        m = re.search(r"at \|-> (\d+)", l)
        out.append({"at": int(m.group(1)) if m else 0, "model": "ids: " + l[:200]})
    return out


def replay_history(case, wd):
    """A run that was rejected after the earlier runs of its recording but accepted alone: record the
    same sequence of runs again (same seed, up to and including that run) and look at it once more."""
    os.makedirs(wd, exist_ok=True)
    trace = os.path.join(wd, "trace.ndjson")
    n = int(case["run"]) + 1
    p = subprocess.run([vcheck.HARNESS_BIN, "gen-trace", trace, str(case["seed"]), str(n)], cwd=wd, stdout=subprocess.PIPE, stderr=subprocess.PIPE, text=True)
    if p.returncode != 0:
        raise vcheck.ToolError("gen-trace failed: %s" % p.stderr[-1000:])
    lines = open(trace).read().split("\n")
    res = validate(trace, wd, 1800)
    if res["violated"] or "validated" not in res:
        raise vcheck.ToolError("trace validation of the replay ended without a verdict (%s)" % res["out"])
    out = []
    for l in list(res["rejections"]) + list(res.get("ids", [])):
        m = re.search(r"at \|-> (\d+)", l); at = int(m.group(1)) if m else 0
        prog = None
        for i in range(min(at, len(lines)) - 1, -1, -1):
            if lines[i].startswith('{"e":"program"'):
                prog = json.loads(lines[i]); break
        if prog is not None and prog.get("run") == case["run"] and not replay(case, os.path.join(wd, "alone")):
            out.append({"at": at, "model": "rejected after %d earlier queries in the same process, accepted alone" % case["run"]})
    return out


def selftest():
    """Corrupt one recorded field / drop one event: the trace must be rejected."""
    wd = os.path.join(vcheck.WORK, "selftest-trace")
    shutil.rmtree(wd, ignore_errors=True)
    os.makedirs(wd)
    trace = os.path.join(wd, "trace.ndjson")
    subprocess.run([vcheck.HARNESS_BIN, "gen-trace", trace, "7", "8"], cwd=wd, check=True, stderr=subprocess.DEVNULL)
    lines = [l for l in open(trace).read().split("\n") if l]
    good = validate(trace, wd, 600)
    print("  recorded trace: %s" % ("accepted %s" % (good["accepted"],) if good["accepted"] else "REJECTED"))
    ok = bool(good["accepted"])
    # 1. corrupt one field: the clause index of the first resolve event after the first answer
    idx = [i for i, l in enumerate(lines) if '"e":"resolve"' in l][-1]
    r = json.loads(lines[idx]); r["idx"] = r["idx"] + 1
    bad1 = lines[:idx] + [json.dumps(r)] + lines[idx + 1:]
    t1 = os.path.join(wd, "corrupt1.ndjson"); open(t1, "w").write("\n".join(bad1) + "\n")
    r1 = validate(t1, wd, 600)
    print("  one clause index changed -> %s" % ("rejected at line %s" % parse_rejected(r1["rejected"])["at"] if r1["rejected"] else "ACCEPTED (self-test failed)"))
    ok &= bool(r1["rejected"])
    # 2. drop one event
    idx2 = [i for i, l in enumerate(lines) if '"e":"bip"' in l or '"e":"headfail"' in l or '"e":"resolve"' in l][len(lines) // 7]
    bad2 = lines[:idx2] + lines[idx2 + 1:]
    t2 = os.path.join(wd, "corrupt2.ndjson"); open(t2, "w").write("\n".join(bad2) + "\n")
    r2 = validate(t2, wd, 600)
    print("  one event dropped -> %s" % ("rejected at line %s" % parse_rejected(r2["rejected"])["at"] if r2["rejected"] else "ACCEPTED (self-test failed)"))
    ok &= bool(r2["rejected"])
    # 3. flip one answer
    idx3 = [i for i, l in enumerate(lines) if '"e":"ret"' in l and '"some":true' in l]
    if idx3:
        r = json.loads(lines[idx3[0]]); r["ans"] = [{"k": "atom", "s": "zzz"} for _ in r["ans"]]
        bad3 = lines[:idx3[0]] + [json.dumps(r)] + lines[idx3[0] + 1:]
        t3 = os.path.join(wd, "corrupt3.ndjson"); open(t3, "w").write("\n".join(bad3) + "\n")
        r3 = validate(t3, wd, 600)
        print("  one answer changed -> %s" % ("rejected" if r3["rejected"] else "ACCEPTED (self-test failed)"))
        ok &= bool(r3["rejected"])
    return ok
