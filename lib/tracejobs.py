"""Trace validation jobs: executions recorded from the real engine, validated by TLC
against the trace specification (implementation -> specification direction)."""
import json, os, re, shutil, subprocess, time
import vcheck

TRACE_CFG = """SPECIFICATION TraceSpec
CONSTANTS
  Depth = 14
  Bug_ClauseLoopIgnoresCut = FALSE
  Bug_OrTailAfterCut = FALSE
  Bug_NotStaysArmed = FALSE
  AtomCodes <- AtomCodesDef
  FmtPieces <- FmtPiecesDef
INVARIANTS
  NotRejected
  TraceRefines
  FreshIsFresh
  NodesAcyclic
PROPERTIES
  TCutCommits
  TNoRetry
  TCutIsLocal
CHECK_DEADLOCK FALSE
"""


def has_goal(prog, pred):
    def g(x):
        if pred(x):
            return True
        return any(g(y) for y in x.get("gs", []))
    return any(g(c["body"]) for c in prog)


def classify(rej, lines):
    """Which properties does a rejected trace speak about?"""
    at = rej["at"]
    prog = None
    for i in range(min(at, len(lines)) - 1, -1, -1):
        r = json.loads(lines[i])
        if r.get("e") == "program":
            prog = r
            break
    props = set()
    if rej.get("retdiff") == "out":
        props.add("C04")
    else:
        props.add("C01")
    if prog:
        if has_goal(prog["prog"], lambda x: x.get("g") == "bip" and x.get("f") == "!"):
            props.add("C02")
        if has_goal(prog["prog"], lambda x: x.get("g") == "not"):
            props.add("C03")
    if rej.get("exhausted"):
        props.add("C05")
    return props, prog


def validate(trace_path, wd, timeout):
    for f in os.listdir(vcheck.SPEC):
        if f.endswith(".tla"):
            shutil.copy(os.path.join(vcheck.SPEC, f), wd)
    with open(os.path.join(wd, "TraceSolver.cfg"), "w") as f:
        f.write(TRACE_CFG)
    env = dict(os.environ, TRACE=trace_path,
               JAVA_TOOL_OPTIONS="-Xss512m -Dtlc2.tool.queue.IStateQueue=StateDeque")
    out_path = os.path.join(wd, "tlc-trace.out")
    t0 = time.time()
    with open(out_path, "w") as out:
        p = subprocess.run(["timeout", str(timeout), "tlc", "-workers", "1", "-metadir", os.path.join(wd, "md"), "-cleanup",
                            "-noGenerateSpecTE", "-config", "TraceSolver.cfg", "TraceSolver.tla"],
                           cwd=wd, env=env, stdout=out, stderr=subprocess.STDOUT)
    shutil.rmtree(os.path.join(wd, "md"), ignore_errors=True)
    res = dict(accepted=None, rejected=None, violated=[], states=0, transitions=0, wall=time.time() - t0, rc=p.returncode, out=out_path)
    for line in open(out_path, errors="replace"):
        if line.startswith('<<"ACCEPTED"'):
            m = re.findall(r"\d+", line)
            res["accepted"] = (int(m[0]), int(m[1]))
        elif line.startswith('<<"REJECTED"'):
            res["rejected"] = line.strip()
        m = vcheck.STATS_RE.search(line)
        if m:
            res["transitions"], res["states"] = int(m.group(1)), int(m.group(2))
        m = re.search(r"(Invariant|Action property|Temporal property) (\w+) (is|was) violated", line)
        if m and m.group(2) != "NotRejected":
            res["violated"].append(m.group(2))
    if p.returncode == 124:
        raise vcheck.ToolError("TLC trace validation timed out (%s)" % out_path)
    return res


def parse_rejected(line):
    # <<"REJECTED", [at |-> 12, runs_ok |-> 3, exhausted |-> FALSE, retdiff |-> "", event |-> "{...}", model |-> [...]]>>
    rej = {}
    m = re.search(r"at \|-> (\d+)", line); rej["at"] = int(m.group(1)) if m else 0
    m = re.search(r"runs_ok \|-> (\d+)", line); rej["runs_ok"] = int(m.group(1)) if m else 0
    rej["exhausted"] = "exhausted |-> TRUE" in line
    m = re.search(r'retdiff \|-> "(\w*)"', line); rej["retdiff"] = m.group(1) if m else ""
    m = re.search(r'model \|-> (\[.*\])\]>>', line); rej["model"] = m.group(1)[:400] if m else ""
    return rej


def run(jobname, job, prop, tier, seed, wd, acc):
    os.makedirs(wd, exist_ok=True)
    runs = job["runs"][tier]
    trace = os.path.join(wd, "trace.ndjson")
    p = subprocess.run([vcheck.HARNESS_BIN, "gen-trace", trace, str(seed), str(runs)], cwd=wd,
                       stdout=subprocess.PIPE, stderr=subprocess.PIPE, text=True)
    if p.returncode != 0:
        raise vcheck.ToolError("gen-trace failed: %s" % p.stderr[-1000:])
    lines = open(trace).read().split("\n")
    nruns = sum(1 for l in lines if l.startswith('{"e":"program"'))
    res = validate(trace, wd, job.get("timeout", {}).get(tier, 1800))
    vcheck.log("trace validation %s: %d runs, %d events, %d states, %.1fs -> %s" %
               (jobname, nruns, len(lines), res["states"], res["wall"],
                "accepted" if res["accepted"] else "REJECTED" if res["rejected"] else "violated %s" % res["violated"]))
    ok_runs = nruns
    if res["rejected"]:
        rej = parse_rejected(res["rejected"])
        props, prog = classify(rej, lines)
        ok_runs = rej["runs_ok"]
        ev = lines[rej["at"] - 1] if 0 < rej["at"] <= len(lines) else "end of trace"
        if prop in props:
            acc["bad"].append({"job": jobname, "case": {"t": "trace", "program": prog, "trace_file": trace, "line": rej["at"]},
                               "obs": {"prop": prop, "kind": "trace-rejected",
                                       "detail": "the recorded execution is not a behaviour of Solver.tla: at trace line %d the engine logged %s while the model was at %s (%s)"
                                                 % (rej["at"], ev[:200], rej["model"], "reply differs in " + rej["retdiff"] if rej["retdiff"] else "event mismatch")}})
    elif res["violated"]:
        owners = {"TraceRefines": {"C01", "C03", "C04", "C05"}, "TCutCommits": {"C02"}, "TNoRetry": {"C02"}, "TCutIsLocal": {"C02"},
                  "FreshIsFresh": {"C10"}, "NodesAcyclic": {"C08"}}
        for v in res["violated"]:
            if prop in owners.get(v, set()):
                acc["bad"].append({"job": jobname, "case": {"t": "trace", "trace_file": trace},
                                   "obs": {"prop": prop, "kind": "trace-" + v, "detail": "%s is violated on a recorded execution (see %s)" % (v, res["out"])}})
        ok_runs = 0
    elif not res["accepted"]:
        raise vcheck.ToolError("trace validation ended without a verdict (exit %d, %s)" % (res["rc"], res["out"]))
    acc["evaluations"] += ok_runs
    acc["kinds"]["%s:trace-accepted" % prop] += ok_runs
    for i in range(ok_runs):
        acc["distinct"].add("trace-%s-%d-%d" % (jobname, seed, i))
    if len(acc["samples"]) < 4 and lines:
        end = next((i for i, l in enumerate(lines[1:], 1) if l.startswith('{"e":"program"')), len(lines))
        acc["samples"].append({"job": jobname, "recorded_run": [json.loads(l) for l in lines[:min(end, 25)] if l]})
    return dict(states=res["states"], transitions=res["transitions"], traces=ok_runs,
                summary={"job": jobname, "module": "TraceSolver", "runs_recorded": nruns, "runs_accepted": ok_runs,
                         "events": len(lines), "states": res["states"], "tlc_s": round(res["wall"], 1)})


def selftest():
    """Corrupt one recorded field / drop one event: the trace must be rejected."""
    wd = os.path.join(vcheck.WORK, "selftest-trace")
    shutil.rmtree(wd, ignore_errors=True)
    os.makedirs(wd)
    trace = os.path.join(wd, "trace.ndjson")
    subprocess.run([vcheck.HARNESS_BIN, "gen-trace", trace, "7", "8"], cwd=wd, check=True, stderr=subprocess.DEVNULL)
    lines = [l for l in open(trace).read().split("\n") if l]
    good = validate(trace, wd, 600)
    print("  recorded trace: %s" % ("accepted %s" % (good["accepted"],) if good["accepted"] else "REJECTED"))
    ok = bool(good["accepted"])
    # 1. corrupt one field: the clause index of the first resolve event after the first answer
    idx = [i for i, l in enumerate(lines) if '"e":"resolve"' in l][-1]
    r = json.loads(lines[idx]); r["idx"] = r["idx"] + 1
    bad1 = lines[:idx] + [json.dumps(r)] + lines[idx + 1:]
    t1 = os.path.join(wd, "corrupt1.ndjson"); open(t1, "w").write("\n".join(bad1) + "\n")
    r1 = validate(t1, wd, 600)
    print("  one clause index changed -> %s" % ("rejected at line %s" % parse_rejected(r1["rejected"])["at"] if r1["rejected"] else "ACCEPTED (self-test failed)"))
    ok &= bool(r1["rejected"])
    # 2. drop one event
    idx2 = [i for i, l in enumerate(lines) if '"e":"bip"' in l or '"e":"headfail"' in l or '"e":"resolve"' in l][len(lines) // 7]
    bad2 = lines[:idx2] + lines[idx2 + 1:]
    t2 = os.path.join(wd, "corrupt2.ndjson"); open(t2, "w").write("\n".join(bad2) + "\n")
    r2 = validate(t2, wd, 600)
    print("  one event dropped -> %s" % ("rejected at line %s" % parse_rejected(r2["rejected"])["at"] if r2["rejected"] else "ACCEPTED (self-test failed)"))
    ok &= bool(r2["rejected"])
    # 3. flip one answer
    idx3 = [i for i, l in enumerate(lines) if '"e":"ret"' in l and '"some":true' in l]
    if idx3:
        r = json.loads(lines[idx3[0]]); r["ans"] = [{"k": "atom", "s": "zzz"} for _ in r["ans"]]
        bad3 = lines[:idx3[0]] + [json.dumps(r)] + lines[idx3[0] + 1:]
        t3 = os.path.join(wd, "corrupt3.ndjson"); open(t3, "w").write("\n".join(bad3) + "\n")
        r3 = validate(t3, wd, 600)
        print("  one answer changed -> %s" % ("rejected" if r3["rejected"] else "ACCEPTED (self-test failed)"))
        ok &= bool(r3["rejected"])
    return ok
