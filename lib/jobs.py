"""Registry: which slices of the specification decide which property."""

UNIFY_INV = ["AcyclicInv", "NoAnonBinding", "KeepsPrior", "Sound", "FailKeeps",
             "Symmetric", "Complete", "MostGeneral", "Emit"]


def unify_nontrivial(case):
    p = case.get("path", [])
    return any(a in ("BindVar", "Decompose", "ListStep", "ListTail", "DerefLeft", "DerefRight",
                     "EvalFunction", "AnonEither") for a in p)


JOBS = {
    "unify-plain": dict(module="MC_Unify", constants={"Slice": "plain"}, invariants=UNIFY_INV,
                        nontrivial=unify_nontrivial, timeout={"quick": 900, "thorough": 1800}),
    "unify-laws": dict(module="MC_Unify", constants={"Slice": "laws"}, invariants=UNIFY_INV,
                       nontrivial=unify_nontrivial, timeout={"quick": 900, "thorough": 3600}),
    "unify-sess": dict(module="MC_Unify", constants={"Slice": "sess"}, invariants=UNIFY_INV,
                       nontrivial=unify_nontrivial, timeout={"quick": 900, "thorough": 1800}),
    "unify-fn": dict(module="MC_Unify", constants={"Slice": "fn"}, invariants=UNIFY_INV,
                     nontrivial=unify_nontrivial, timeout={"quick": 900, "thorough": 3600}),
    "unify-arith": dict(module="MC_Unify", constants={"Slice": "arith"}, invariants=UNIFY_INV,
                        nontrivial=unify_nontrivial, timeout={"quick": 900, "thorough": 3000}),
}

BIP_INV = ["KeepsPrior", "AcyclicRes", "CmpBindsNothing", "CmpLaws", "AppendLen", "FilterPartition", "Emit"]
BIP_SUBST = {"AtomCodes": "AtomCodesDef", "FmtPieces": "FmtPiecesDef"}
for _s in ("cmp", "append", "count", "filter", "functor", "print"):
    JOBS["bip-" + _s] = dict(module="MC_Builtins", constants={"Slice": _s}, subst=BIP_SUBST, invariants=BIP_INV,
                             timeout={"quick": 600, "thorough": 1800})

LISTS_INV = ["MkWF", "MkContract", "MkCount", "RnShape", "RnConsistent", "Emit"]
JOBS["lists-mklist"] = dict(module="MC_Lists", constants={"Slice": "mklist", "Bug_DropsEmptyTail": "FALSE"}, invariants=LISTS_INV,
                            timeout={"quick": 600, "thorough": 1800})
JOBS["lists-rename"] = dict(module="MC_Lists", constants={"Slice": "rename", "Bug_DropsEmptyTail": "FALSE"}, invariants=LISTS_INV,
                            timeout={"quick": 600, "thorough": 1800})

SOLVER_INV = ["Refines", "Complete", "Terminates", "FreshIsFresh", "NodesAcyclic", "AlphaInvariant", "Emit"]
SOLVER_PROPS = ["CutCommits", "NoRetryLeftOfCut", "CutIsLocal"]
SOLVER_CONST = {"Depth": 12, "ReAsks": 2, "MaxSteps": 4000, "Bug_ClauseLoopIgnoresCut": "FALSE",
                "Bug_OrTailAfterCut": "FALSE", "Bug_NotStaysArmed": "FALSE"}
for _s in ("andor", "cut", "not", "print", "lists", "alias", "time", "anon"):
    JOBS["solver-" + _s] = dict(module="MC_Solver", constants=dict(SOLVER_CONST, Slice=_s), subst=BIP_SUBST,
                                invariants=SOLVER_INV, properties=SOLVER_PROPS, constraint="WithinBudget",
                                timeout={"quick": 1200, "thorough": 3600})

JOBS["solver-deep"] = dict(module="MC_Solver", constants=dict(SOLVER_CONST, Slice="deep", Depth=130, MaxSteps=20000, ReAsks=1), subst=BIP_SUBST,
                           invariants=SOLVER_INV, properties=SOLVER_PROPS, constraint="WithinBudget", java="-Xss1g",
                           timeout={"quick": 1200, "thorough": 3600})

for _s in ("terms", "goals", "strings", "mutants"):
    JOBS["syntax-" + _s] = dict(module="MC_Syntax", constants={"Slice": _s}, invariants=["Emit"], subst={"AtomCodes": "AtomCodesDef", "FmtPieces": "FmtPiecesDef"},
                                timeout={"quick": 900, "thorough": 3600})

JOBS["reader-layout"] = dict(module="MC_Reader", constants={"Slice": "layout"}, invariants=["ReaderCorrect", "AllLegal", "Emit"],
                             timeout={"quick": 900, "thorough": 3600})

JOBS["session"] = dict(module="MC_Session", constants=dict(Slice="session", Depth=12, MaxSteps=6000, Bug_ClauseLoopIgnoresCut="FALSE",
                                                           Bug_OrTailAfterCut="FALSE", Bug_NotStaysArmed="FALSE", Bug_StaleStopFlag="FALSE"),
                       subst=BIP_SUBST, invariants=["EachRunIsItsOwnSLD", "NoSpuriousTimeout", "Terminates", "Emit"], constraint="WithinBudget",
                       timeout={"quick": 1200, "thorough": 3600})

JOBS["knowledge"] = dict(module="MC_Knowledge", constants=dict(Slice="knowledge", Depth=12), subst=BIP_SUBST,
                         invariants=["KBIsHistory", "KeysApart", "NoEmptyEntry", "FlatEquivalent", "Emit"], timeout={"quick": 900, "thorough": 3600})

JOBS["repl"] = dict(module="MC_Repl", constants=dict(Slice="repl", ReplDepth=12), subst=BIP_SUBST, query_bin=True,
                    invariants=["PromptsAndEnds", "InnerLoopEnds", "Emit"], timeout={"quick": 900, "thorough": 3600})

JOBS["interleave"] = dict(module="MC_Interleave", constants=dict(Slice="interleave", IlDepth=12), subst=BIP_SUBST,
                          invariants=["Independent", "Emit"], timeout={"quick": 900, "thorough": 3600})

TIMER_INV = ["NoFalseTimeout", "RealAnswers", "FastUndisturbed", "NoLateFire", "CancelReturns", "Emit"]
JOBS["timer"] = dict(module="MC_Timer", constants=dict(Slice="timer", NQ=2, GenerationFix="TRUE"), invariants=TIMER_INV,
                     spec="FairSpec", properties=["EveryQueryReports"],
                     timeout={"quick": 600, "thorough": 1800}, workers=4)
JOBS["timer3"] = dict(module="MC_Timer", constants=dict(Slice="timer", NQ=3, GenerationFix="TRUE"), invariants=TIMER_INV,
                      timeout={"quick": 600, "thorough": 1800}, workers=8, tiers=("thorough",))

JOBS["trace-solver"] = dict(kind="trace", module="TraceSolver", runs={"quick": 250, "thorough": 5000},
                            timeout={"quick": 900, "thorough": 3600})

JOBS["trace-unify"] = dict(kind="trace", module="TraceUnify", runs={"quick": 1500, "thorough": 30000},
                           timeout={"quick": 900, "thorough": 3600})

JOBS["trace-bip"] = dict(kind="trace", module="TraceBuiltins", runs={"quick": 4000, "thorough": 60000},
                         timeout={"quick": 900, "thorough": 3600})

UNIFY_ASSUME = [
    "pairs whose unification needs an occurs check are generated but excluded (counted under excluded_cases)",
    "the universe is bounded: terms of depth <= 2 over 2 atoms, 1 integer, 2 floats, 3 variables, $_, f/1 g/2 h/0, lists of <= 3 elements with and without tail",
    "the brute-force unifier oracle (Complete, MostGeneral) ranges over the ground terms of the 'laws' universe only",
    "trace-unify: sessions of 1-4 unifications over random terms of depth <= 3 (2-6 variables, $_, f/1 g/2 h/0, lists of <= 3 elements with variable / $_ tails, related pairs) recorded from the real unify() are validated against the Unify machine, which is the reference there (it is checked against the declarative oracle on the exhaustive universes only)",
]

PROPS = {
    "C01": dict(jobs=["solver-andor", "solver-lists", "solver-alias", "solver-deep", "trace-solver"], level="model_checking",
                rule="every program of the slice grammars (base facts + 1-3 clauses whose bodies combine calls, =, ==, conjunction, disjunction, nested and/or; the recursive list programs; the aliasing programs) x queries, each asked until 'no more'; "
                     "TLC checks that the solution-node machine of Solver.tla refines the declarative search of SLD.tla (Refines) and the real engine must observe the same answers in the same order; solve_all must report them as `$Var = value`",
                assumptions=["programs whose reference search exceeds the call-depth budget or needs an occurs check are outside the claim (counted under excluded_cases)"]),
    "C02": dict(jobs=["solver-cut", "trace-solver", "interleave"], level="model_checking",
                rule="(interleave: queries over predicates without variables whose clauses cut -- `pz :- !, r0.` with two r0, `pw :- (a0, c0), !, b0.`, a cut in a later alternative -- asked in every interleaving while a third query is built before every request) `!` at every position of 2-3 literal conjunctions, disjunctions and their nestings, before/after succeeding, failing, multi-answer and printing goals, in a called predicate, with later clauses that succeed / fail / print, and under a caller; TLC checks CutCommits, NoRetryLeftOfCut, CutIsLocal and Refines on the machine",
                assumptions=["cut inside not(...) / time(...) is excluded, as the property states"]),
    "C03": dict(jobs=["solver-not", "trace-solver"], level="model_checking",
                rule="not(...) around calls, conjunctions, disjunctions, unifications, comparisons, printing goals and another not, alone / after / before generators / in a disjunction, x queries with unbound and ground arguments",
                assumptions=[]),
    "C04": dict(jobs=["solver-print", "bip-print", "solver-cut", "solver-not", "trace-solver", "trace-bip"], level="model_checking",
                rule="print / print_list / nl placed left and right of multi-answer, failing and negated goals; real stdout between successive answers is compared with the reference search's text; "
                     "plus single print / print_list / nl calls over 8 format strings (0-3 markers at every position) x argument tuples (atoms, integers, bound variables, chains) and concatenation without markers",
                assumptions=["only atoms and small integers are printed (given literally or bound); format strings with k markers have k arguments or none"]),
    "C05": dict(jobs=["solver-not", "solver-cut", "solver-andor", "solver-print", "solver-alias", "solver-lists", "solver-time", "trace-solver", "session"], level="model_checking",
                rule="every program/query of the solver slices, asked 2 more times after the first 'no more' (answers and output); (session: every query of a session history that had reported 'no more' is asked again at the END of the history -- after the answers, re-asks and timeouts of the later queries, which may have left the stop flag set -- through solve() and through next_solution(): 'No more.' / none, nothing written)",
                assumptions=[]),
    "C11": dict(jobs=["solver-andor", "solver-alias", "solver-lists", "solver-print", "solver-not", "solver-cut"], level="model_checking",
                rule="every program of the solver slices under two clause-wise renamings generated by the specification (pool 1 reuses the QUERY's variable names in every clause, all clauses sharing names; pool 2 swaps each clause's own names); AlphaInvariant is checked on the reference semantics and every variant is replayed",
                assumptions=[]),
    "C19": dict(jobs=["syntax-terms", "syntax-goals", "solver-andor"], level="model_checking",
                rule="(solver-andor: every program of that slice which has a source text is also written out as text, each clause parsed with parse_rule -- it must be the clause the specification built -- and the search over the LOADED knowledge base must observe what the reference observes) (syntax-goals also: every tree of conjunctions and disjunctions to depth 2, and depth-3 trees with one deep operand, written with the documented grouping parentheses in two ways, as a goal and as a rule body: must parse to exactly that tree) every term of the canonical grammar to depth 2 (3 in thorough), every goal (simple goals, conjunctions, disjunctions of conjunctions, not) and rule of the goal universe: canonical text from the specification's printer must parse to the AST, print back unchanged and re-parse equal; the alternative documented surface forms (infix comparison / arithmetic, `q` for `q()`, `q.`) must parse to the same AST; the printer is checked injective by TLC",
                assumptions=["only text that Display can express unambiguously is canonical: a conjunction containing a disjunction has no canonical text"]),
    "C20": dict(jobs=["syntax-terms"], level="model_checking",
                rule="every term text of the C19 universe plus signed numbers, punctuation and quoted atoms, embedded in 12 placement contexts (alone, complex argument first/last, built-in argument, list element first/last, infix operand left/right, comparison operand, query argument, rule head, rule body); the term recovered from each context is compared with the stand-alone parse",
                assumptions=[]),
    "C18": dict(jobs=["syntax-strings", "syntax-mutants", "syntax-terms", "syntax-goals"], level="exploration",
                rule="all strings up to length 4 (5 in thorough) over a 24-symbol syntax alphabet, all single (thorough: sampled double) mutations of canonical goal / rule / term texts, and all canonical texts, through the 8 parser entry points; distinct = distinct input strings; non-trivial = every string (the oracle is 'returns')",
                level_text="bounded-exhaustive exploration of the parser input space defined by the specification (alphabet, lengths, seed texts, mutation operators); the oracle is trivial (a value or an error, never a panic / hang), so this is exploration, not model checking of a behaviour",
                assumptions=["the claim is exactly the enumerated space"]),
    "C21": dict(jobs=["reader-layout", "solver-andor"], level="model_checking",
                rule="(solver-andor: every program of that slice which has a source text is written to a file, one clause per line: the loaded knowledge base must be the one parse_rule gives clause by clause) 8 programs of 1-3 rules (facts with spaces in atoms, float literals, infix = + - > >= <, lists, disjunction, short facts) x every layout with at most 2 (thorough 3) deviations from one-rule-per-line: line break / indented break / tab / blank line after any continuation character, two rules on one line, trailing # % // comments and comment lines outside brackets; TLC runs the Reader machine over each layout (ReaderCorrect) and the real loader must produce the knowledge base of parse_rule on each rule",
                assumptions=["pieces (where a line may legally end) are written out per rule in MC_Reader.tla; the harness joins them with single spaces to obtain the canonical rule text"]),
    "C22": dict(jobs=["session", "trace-solver", "interleave", "timer"], level="model_checking",
                rule="(timer: after each replayed timer schedule a query is built, 1.25 s pass with nothing started, and it must still find all its answers -- no timer of an earlier query may reach it) (interleave: two queries built first, then every interleaving of their requests -- through next_solution and through solve() -- so that one query is asked, exhausted and re-asked between the requests of the other; each reply must be what that query observes alone) (trace-solver: the 250 / 5000 random programs are recorded one after the other in ONE process, each query built with make_query(); a run that Solver.tla rejects there but accepts when recorded alone in a fresh process depended on its history) all histories of 1-2 (thorough 3) episodes over 4-6 queries x 8-14 call lists (next_solution x4 incl. re-asks after exhaustion, solve x3, solve_all, mixes, and solve / solve_all calls during which the query timer fires before the 1st..5th count_rules()); every query is built with make_query + make_base_node only; TLC checks EachRunIsItsOwnSLD on Session.tla and the history is replayed with the virtual timer hook",
                assumptions=["a query is not resumed after a later query has been built", "calls made on a query after one of its own calls timed out are unconstrained",
                             "the timer's firing point is virtual (a hook in count_rules()); real-time firing is covered by the C23 timer slices"]),
    "C23": dict(jobs=["timer", "timer3", "session"], level="model_checking",
                rule="all interleavings of 2 (thorough 3) consecutive solve() calls with their timer threads in Timer.tla (thread_timer's locks, the unsynchronised flag, fast and slow queries); TLC checks NoFalseTimeout, RealAnswers, FastUndisturbed, NoLateFire on the protocol; every distinct schedule (where the main thread is when each callback runs) that the hooks can enforce is replayed against the real 1 s timer with a calibrated ~1.7 s search, the callback held at a gate and released at the chosen point; plus the solve / solve_all reporting rules of the session histories (virtual timer)",
                assumptions=["wall-clock durations are abstracted to fast / slow; schedules in which the callback runs between the end of the search and the flag read inside solve() cannot be enforced from outside and are covered by the model only",
                             "the timer protocol modelled is thread_timer 0.3.0 as vendored in the cargo registry"]),
    "C06": dict(jobs=["unify-laws", "unify-plain", "unify-sess", "trace-unify"], level="model_checking",
                rule="every ordered pair of universe terms x every prior substitution (and every session of 2-3 unifications), enumerated by TLC; "
                     "non-trivial = the Unify machine takes at least one deref/bind/decompose/list step; distinct by (terms, prior)",
                assumptions=UNIFY_ASSUME),
    "C07": dict(jobs=["unify-laws", "unify-plain", "trace-unify", "solver-lists"], level="model_checking",
                rule="(solver-lists: head / goal unification in the search -- open and closed list patterns in heads against open and closed lists in goals) every ordered pair x prior of the universe; the implementation is run in both orders (as written and after recreate_variables) and compared with itself and with the model's Symmetric invariant",
                assumptions=UNIFY_ASSUME),
    "C08": dict(jobs=["unify-sess", "unify-plain", "solver-alias", "trace-unify", "solver-deep"], level="model_checking",
                rule="(solver-deep: recursions 60-70 levels deep whose two handed-down arguments lead to the same variable -- at the bottom two variables are unified that are aliased through that many links already) all sessions of 2-3 unifications over variables/terms of the session universe plus all single unifications under aliasing priors; after every real unify() the returned substitution set is walked with a visited set",
                assumptions=UNIFY_ASSUME),
    "C09": dict(jobs=["unify-plain", "unify-sess", "unify-laws", "trace-unify", "solver-anon"], level="model_checking",
                rule="(solver-anon: $_ in the search itself -- facts whose heads have $_ against goals with constants, goals with $_ against heads with constants, variables and $_, as queries and in rule bodies before and after goals that bind: the answers of the reference search) the cases of C06/C08 that contain $_ (argument, list element, list tail, nested); non-trivial as for C06",
                assumptions=UNIFY_ASSUME),
    "C14": dict(jobs=["bip-cmp", "syntax-goals", "trace-bip"], level="model_checking",
                rule="every comparison predicate x every ordered pair of operands (integers incl. -2^63 and 2^62, floats incl. -0.0 and fractions, ASCII/space/non-ASCII atoms, non-constants), literally and through variable chains; distinct by (predicate, operands, prior)",
                assumptions=["integers compared with floats are only generated where the i64 -> f64 conversion is exact", "named forms here; infix forms are covered by the syntax slices (C19/C20)"]),
    "C15": dict(jobs=["lists-mklist", "lists-rename", "bip-append", "bip-filter", "syntax-terms", "trace-bip"], level="model_checking",
                rule="constructor: every element sequence up to length 5 over atoms, numbers, variables, $_, complex terms, empty / nested / tailed lists x vbar, stepped through the make_linked_list machine of Lists.tla; "
                     "engine-built lists: every renamed term vector, append result and include/exclude result of the other slices, projected cell by cell with the well-formedness check",
                assumptions=["a single-element sequence whose element is a list is outside the documented constructor contract", "parsed lists are checked by the syntax slices (C19)"]),
    "C10": dict(jobs=["lists-rename", "unify-plain", "solver-lists", "solver-alias", "solver-andor", "trace-solver", "interleave"], level="model_checking",
                rule="(interleave: two searches alive at the same time -- both queries built first, then every interleaving of their requests over a knowledge base with rule bodies that run out on re-entry and facts with variables of their own; Interleave.tla is the product of two single-search machines, every reply must be what that search observes alone; the solver slices also ask the same query twice in turn) every vector of 1-3 terms (clause-shaped: shared and distinct variable names, $_, empty / nested lists, tails, function terms) renamed from two counter values; plus every term pair of the unifier slice renamed and unified",
                assumptions=["freshness in the middle of a search: after every replayed query each clause of the program is fetched with get_rule() one after the other; "
                             "and in every recorded run each head unification must have taken at least one fresh id per variable name of its clause (the engine's own counter, logged by the resolve hook)"]),
    "C16": dict(jobs=["bip-append", "trace-bip", "solver-lists"], level="model_checking",
                rule="(solver-lists: append as a goal of a clause body, its list arguments renamed with the clause -- a variable only inside a nested list, a nested list with a tail variable) append with 1-4 inputs from a universe of atoms, numbers, complex terms, bound variables, lists with nested / empty-list elements and bound tails, x 3 priors x several Out shapes",
                assumptions=["unbound-variable inputs and lists with an unbound tail are outside the claim and excluded"]),
    "C17": dict(jobs=["bip-count", "bip-filter", "bip-functor", "unify-fn", "trace-bip"], level="model_checking",
                rule="count / include / exclude / functor calls over the list, pattern and complex-term universes of MC_Builtins x priors, and join(...) function terms of the fn slice",
                assumptions=["join is only claimed for atom / small-integer words"]),
    "C12": dict(jobs=["unify-arith", "syntax-goals", "trace-bip"], level="model_checking",
                rule="add/subtract/multiply/divide over every argument list of 1-3 numbers of the exact-number universe (and 4 over a smaller one), literal, through bound variables and variable chains, unified with a variable and with constants; excluded: lists whose fold is not exactly representable (overflow, integer division by zero, inexact float results)",
                assumptions=["IEEE rounding of inexact float operations is not modelled: only argument lists whose every intermediate result is exactly representable are claimed",
                             "the infix forms + - * / are produced by the parser slices (C19/C20), which map them to these function terms"]),
    "C13": dict(jobs=["unify-fn", "trace-bip"], level="model_checking",
                rule="every function term of the universe (4 arithmetic functions x 6 argument lists, 5 joins) against variables, constants of every type and other function terms, both orders, bare and nested in f(_) and in a list, under 6 priors",
                assumptions=["arithmetic is exact (dyadic) in the model: inputs whose fold is not exactly representable are excluded"]),
}

# Behaviour of the system that the specification covers beyond the listed properties (not in MANIFEST.json:
# `./check X01` is run by `./selftest extra`)
PROPS["X01"] = dict(jobs=["solver-time"], level="model_checking",
                    rule="time(G) around calls, conjunctions, disjunctions, printing and failing goals and not(...), alone / right and left of multi-answer goals / in a disjunction / nested / under not: "
                         "G is asked once, the elapsed time is written when the search for its first answer ends, a second request fails silently (Solver.tla TimeCall / TimeResult against SLD.tla)",
                    assumptions=["the text written by time(...) is compared up to the two numbers", "cut inside time(...) is outside every claim"])

PROPS["X02"] = dict(jobs=["knowledge"], level="model_checking",
                    rule="a knowledge base built up in batches: every sequence of 1-3 (thorough 4) clauses over a pool (p/1 facts and a rule, p/2 fact and rule, q/1 facts) divided into batches in every way; "
                         "TLC steps add_rules' loop (Knowledge.tla: KBIsHistory, KeysApart, NoEmptyEntry, FlatEquivalent); the real knowledge base is built batch by batch from constructed rules, from parsed rules "
                         "and from one source file per batch, and count_rules / get_rule / format_kb and the answers of four queries are compared",
                    assumptions=[])

PROPS["X03"] = dict(jobs=["repl"], level="model_checking",
                    rule="the `query` program (src/main.rs) as a machine with one action per turn of its two loops (Repl.tla): sessions of 0-3 (thorough 4) lines typed at the prompt -- queries with several answers, "
                         "none, ground, functor-only, for a predicate without clauses, over not(...), with printing, and lines which are not queries; the real binary, built from the tree under test, is run with the "
                         "typed lines on its standard input and its output must be the transcript of the machine",
                    assumptions=["the text of a parse error is not specified: any one line"])

LEVEL_TEXT = ("TLC explores the relevant state machine of the TLA+ specification exhaustively over a bounded universe, checks the property as "
              "invariants of the specification against an independent declarative definition in the same modules, and every explored behaviour "
              "(input, expected observation after each step) is replayed against the real crate and compared; bounded-exhaustive rather than a proof")
NOT_APPLICABLE = {
    "C24": "undefined behaviour (aliasing through RefCell::as_ptr, data races on static mut, out-of-bounds, use-after-free) is a property of the Rust abstract machine's memory model, which a TLA+ specification of the engine's abstract state neither represents nor observes; only an execution-level UB detector decides it (DESIGN.md section 6)",
}
