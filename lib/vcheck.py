"""Orchestrator of the model-based checks (see /verif/DESIGN.md section 4)."""
import json, os, re, shutil, subprocess, sys, time, hashlib, collections

ROOT = os.path.dirname(os.path.dirname(os.path.abspath(__file__)))
SPEC = os.path.join(ROOT, "spec")
WORK = os.path.join(ROOT, "work")
EVID = os.path.join(ROOT, "evidence")
HARNESS_DIR = os.path.join(ROOT, "harness")
HARNESS_BIN = os.path.join(HARNESS_DIR, "target", "release", "suiron-verif-harness")
KNOWN = os.path.join(ROOT, "known_findings.json")
# Development only (never set by a registered command): VERIF_ALT=<name>:<path of a checkout of suiron-rust> runs the
# check against that checkout instead of /repo, with its own harness build, work and evidence directories under
# work/alt-<name>/ -- so that checks can be developed on a clean tree while /repo is patched for a mutant evaluation.
ALT = os.environ.get("VERIF_ALT")
REPO = "/repo"
if ALT:
    _name, _repo = ALT.split(":", 1)
    REPO = _repo
    _base = os.path.join(WORK, "alt-" + _name)
    WORK = os.path.join(_base, "work")
    EVID = os.path.join(_base, "evidence")
    HARNESS_DIR = os.path.join(_base, "harness")
    HARNESS_BIN = os.path.join(HARNESS_DIR, "target", "release", "suiron-verif-harness")
    os.makedirs(os.path.join(HARNESS_DIR, ".cargo"), exist_ok=True)
    os.makedirs(WORK, exist_ok=True)
    _src = os.path.join(ROOT, "harness")
    with open(os.path.join(HARNESS_DIR, "Cargo.toml"), "w") as _f:
        _f.write(open(os.path.join(_src, "Cargo.toml")).read().replace('path = "/repo"', 'path = "%s"' % _repo))
    shutil.copy(os.path.join(_src, ".cargo", "config.toml"), os.path.join(HARNESS_DIR, ".cargo", "config.toml"))
    if not os.path.islink(os.path.join(HARNESS_DIR, "src")):
        os.symlink(os.path.join(_src, "src"), os.path.join(HARNESS_DIR, "src"))
TLC_WORKERS = os.environ.get("VERIF_TLC_WORKERS", "10")
CURRENT_TIER = ["quick"]


class ToolError(Exception):
    pass


def log(*a):
    print("[check]", *a, file=sys.stderr, flush=True)


# --------------------------------------------------------------------------- jobs
from jobs import JOBS, PROPS   # noqa: E402


# --------------------------------------------------------------------------- build
def build_harness():
    t0 = time.time()
    if os.environ.get("VERIF_SKIP_BUILD") and os.path.exists(HARNESS_BIN):
        # development only (background sweeps started from a snapshot while /repo is being patched for
        # mutant evaluation): reuse the harness built at the start of the sweep.  Never set by a registered command.
        log("VERIF_SKIP_BUILD: reusing " + HARNESS_BIN)
        return
    env = dict(os.environ, CARGO_NET_OFFLINE="true")
    lock = os.path.join(HARNESS_DIR, "Cargo.lock")
    if not os.path.exists(lock):
        shutil.copy("/repo/Cargo.lock", lock)
    p = subprocess.run(["cargo", "build", "--offline", "--release"], cwd=HARNESS_DIR, env=env,
                       stdout=subprocess.PIPE, stderr=subprocess.STDOUT, text=True)
    if p.returncode != 0:
        sys.stderr.write(p.stdout[-6000:])
        raise ToolError("cargo build of the harness against /repo failed (the tree does not compile?)")
    log("harness built in %.1fs" % (time.time() - t0))


QUERY_BIN = [None]


def build_query_bin():
    """The crate's own `query` program (src/main.rs), built from the tree under test into a directory of ours."""
    if QUERY_BIN[0]:
        return QUERY_BIN[0]
    t0 = time.time()
    tdir = os.path.join(WORK, "query-target")
    exe = os.path.join(tdir, "release", "query")
    if not (os.environ.get("VERIF_SKIP_BUILD") and os.path.exists(exe)):
        p = subprocess.run(["cargo", "build", "--offline", "--release", "--bin", "query", "--manifest-path", os.path.join(REPO, "Cargo.toml"), "--target-dir", tdir],
                           env=dict(os.environ, CARGO_NET_OFFLINE="true"), stdout=subprocess.PIPE, stderr=subprocess.STDOUT, text=True)
        if p.returncode != 0 or not os.path.exists(exe):
            sys.stderr.write(p.stdout[-4000:])
            raise ToolError("cargo build of the `query` program failed")
        log("`query` program built in %.1fs" % (time.time() - t0))
    QUERY_BIN[0] = exe
    return exe


# --------------------------------------------------------------------------- TLC
UESC_RE = re.compile(r"\{U\+([0-9A-F]{4,6})\}")


def unescape_text(txt):
    """{U+XXXX} -> the character (the specification keeps its strings ASCII: TLC stores the strings of states
    as bytes when it moves states to disk, which corrupts other characters in larger runs)."""
    return UESC_RE.sub(lambda m: chr(int(m.group(1), 16)), txt)


STATS_RE = re.compile(r"(\d+) states generated, (\d+) distinct states found")


def run_tlc(job, tier, seed, wd, extra_env=None):
    """Run one TLC job; returns dict(states, transitions, cases_path, ncases, wall)."""
    os.makedirs(wd, exist_ok=True)
    for f in os.listdir(SPEC):
        if f.endswith(".tla"):
            shutil.copy(os.path.join(SPEC, f), wd)
    module = job["module"]
    consts = dict(job.get("constants", {}))
    consts["Tier"] = tier
    cfg = ["SPECIFICATION %s" % job.get("spec", "Spec"), "CONSTANTS"]
    for k, v in consts.items():
        cfg.append('  %s = %s' % (k, v if v in ("TRUE", "FALSE") or not isinstance(v, str) else json.dumps(v)))
    for k, v in job.get("subst", {}).items():
        cfg.append('  %s <- %s' % (k, v))
    inv = job.get("invariants", [])
    if inv:
        cfg.append("INVARIANTS")
        cfg += ["  " + i for i in inv]
    props = job.get("properties", [])
    if props:
        cfg.append("PROPERTIES")
        cfg += ["  " + i for i in props]
    for k in ("CONSTRAINT", "ACTION_CONSTRAINT", "VIEW", "POSTCONDITION"):
        if job.get(k.lower()):
            cfg.append("%s %s" % (k, job[k.lower()]))
    cfg.append("CHECK_DEADLOCK FALSE")
    with open(os.path.join(wd, module + ".cfg"), "w") as f:
        f.write("\n".join(cfg) + "\n")
    cmd = ["timeout", str(job.get("timeout", {}).get(tier, 900)), "tlc",
           "-workers", str(job.get("workers", TLC_WORKERS)),
           "-metadir", os.path.join(wd, "md"), "-cleanup", "-noGenerateSpecTE"]
    if job.get("simulate"):
        sim = job["simulate"][tier]
        cmd += ["-simulate", "num=%d" % sim["num"], "-depth", str(sim["depth"]), "-seed", str(seed)]
    cmd += ["-config", module + ".cfg", module + ".tla"]
    env = dict(os.environ)
    env["JAVA_TOOL_OPTIONS"] = job.get("java", "-Xss512m")
    if extra_env:
        env.update(extra_env)
    t0 = time.time()
    out_path = os.path.join(wd, "tlc.out")
    with open(out_path, "w") as out:
        p = subprocess.run(cmd, cwd=wd, env=env, stdout=out, stderr=subprocess.STDOUT)
    wall = time.time() - t0
    states = trans = 0
    ncases = 0
    errors = []
    cases_path = os.path.join(wd, "cases.ndjson")
    prefix = '<<"CASE", '
    with open(out_path, encoding="utf-8", errors="replace") as f, open(cases_path, "w", encoding="utf-8") as o:
        for line in f:
            if line.startswith(prefix):
                s = line.rstrip("\n")[len(prefix):-2]
                try:
                    o.write(unescape_text(json.loads(s)) + "\n")
                    ncases += 1
                except Exception as e:          # a CASE line broken by interleaved output
                    errors.append("unparsable CASE line: %s" % e)
                continue
            if line.startswith('<<"ATOMS", '):
                s = line.rstrip("\n")[len('<<"ATOMS", '):-2]
                o.write(json.dumps({"t": "atoms", "table": json.loads(unescape_text(json.loads(s)))}, ensure_ascii=False) + "\n")
                ncases += 1
                continue
            m = STATS_RE.search(line)
            if m:
                trans, states = int(m.group(1)), int(m.group(2))
            if line.startswith("Error:") or "is violated" in line or "Exception" in line:
                errors.append(line.strip())
    shutil.rmtree(os.path.join(wd, "md"), ignore_errors=True)
    if p.returncode == 124:
        raise ToolError("TLC timed out on %s (%s)" % (module, wd))
    if errors or p.returncode != 0:
        raise ToolError("TLC reported a problem in the SPECIFICATION %s (exit %d): %s  [see %s]" %
                        (module, p.returncode, "; ".join(errors[:5]), out_path))
    log("TLC %s %s: %d distinct states, %d cases, %.1fs" % (module, consts, states, ncases, wall))
    return dict(states=states, transitions=trans, cases_path=cases_path, ncases=ncases, wall=wall)


# --------------------------------------------------------------------------- replay
def run_harness(cases_path, wd, mode="replay"):
    res = os.path.join(wd, "results.ndjson")
    t0 = time.time()
    p = subprocess.run([HARNESS_BIN, mode, cases_path, res], cwd=wd, env=dict(os.environ, VERIF_TIER=CURRENT_TIER[0], VERIF_QUERY_BIN=QUERY_BIN[0] or ""),
                       stdout=subprocess.PIPE, stderr=subprocess.PIPE, text=True)
    if p.returncode != 0:
        raise ToolError("harness %s failed (exit %d): %s" % (mode, p.returncode, p.stderr[-2000:]))
    log("harness %s: %.1fs" % (mode, time.time() - t0))
    return res


def load_known():
    if not os.path.exists(KNOWN):
        return []
    with open(KNOWN) as f:
        return json.load(f).get("findings", [])


def known_match(prop, job, bad, known):
    for k in known:
        if k.get("property") != prop:
            continue
        m = k.get("match", {})
        if "job" in m and m["job"] != job:
            continue
        if "kind" in m and m["kind"] != bad.get("kind"):
            continue
        if "detail_contains" in m and m["detail_contains"] not in bad.get("detail", ""):
            continue
        if "detail_regex" in m and not re.search(m["detail_regex"], bad.get("detail", "")):
            continue
        return k
    return None


def nontrivial(case, job):
    rule = job.get("nontrivial")
    if rule is None:
        return True
    return rule(case)


def aggregate(prop, jobname, job, cases_path, results_path, acc):
    """Fold the harness results of one job into acc (per property)."""
    cases = []
    with open(cases_path) as f:
        for l in f:
            cases.append(l)
    with open(results_path) as f:
        for l in f:
            if l.startswith('{"begin"'):
                continue
            r = json.loads(l)
            if r.get("aborted"):
                acc["excluded"]["not-run-after-repeated-crashes-or-hangs"] += r["aborted"]
                continue
            i = r["i"]
            mine_ok = [o for o in r["ok"] if o.split(":")[0] == prop]
            mine_bad = [b for b in r["bad"] if b["prop"] in (prop, "TOOL")]
            skipped = [o for o in r["ok"] if o.startswith("SKIP")]
            if skipped:
                acc["excluded"][skipped[0]] += 1
            if not mine_ok and not mine_bad:
                continue
            for o in mine_ok:
                if "*" in o:                      # one verdict standing for n evaluated inputs
                    acc["evaluations"] += int(o.rsplit("*", 1)[1]) - 1
            mine_ok = [o.rsplit("*", 1)[0] for o in mine_ok]
            acc["evaluations"] += len(mine_ok) + len(mine_bad)
            for o in mine_ok:
                acc["kinds"][o] += 1
            case = None
            if mine_bad or len(acc["samples"]) < 4 or True:
                case = json.loads(cases[i])
            sig = case.get("path")
            if sig is not None:
                acc["paths"].add(json.dumps(sig))
                for a in sig:
                    acc["actions"][a if isinstance(a, str) else json.dumps(a)] += 1
            if nontrivial(case, job):
                acc["distinct"].add(hashlib.md5(cases[i].encode()).hexdigest())
            if len(acc["samples"]) < 3 and (i % 97 == 5 or len(cases) < 50):
                acc["samples"].append({"job": jobname, "case": case, "verdicts": mine_ok})
            for b in mine_bad:
                if b["prop"] == "TOOL":
                    raise ToolError("harness could not run a case: %s" % b)
                acc["bad"].append({"job": jobname, "case": case, "obs": b})


def write_evidence(prop, tier, seed, level, coverage, wall, violations, assumptions):
    os.makedirs(EVID, exist_ok=True)
    ev = {"property_id": prop, "tier": tier, "seed": seed, "level": level,
          "coverage": coverage, "assumptions": assumptions, "wall_s": round(wall, 2),
          "violations": violations}
    with open(os.path.join(EVID, prop + ".json"), "w") as f:
        json.dump(ev, f, indent=1, sort_keys=True)


def main(argv):
    if not argv:
        print(__doc__)
        return 2
    prop = argv[0]
    tier = "quick"
    replay = None
    i = 1
    while i < len(argv):
        if argv[i] in ("quick", "thorough"):
            tier = argv[i]
        elif argv[i] == "--replay":
            replay = argv[i + 1]
            i += 1
        i += 1
    tier = os.environ.get("VERIF_TIER", tier) if len(argv) < 2 else tier
    seed = int(os.environ.get("VERIF_SEED", "1"))
    if prop not in PROPS:
        print("unknown or unclaimed property", prop)
        return 2
    t0 = time.time()
    try:
        build_harness()
        if replay:
            return do_replay(prop, replay)
        return do_check(prop, tier, seed, t0)
    except ToolError as e:
        print("TOOL-ERROR property=%s %s" % (prop, e))
        return 2


def do_replay(prop, path):
    with open(path) as f:
        rep = json.load(f)
    wd = os.path.join(WORK, "replay-%s" % prop)
    os.makedirs(wd, exist_ok=True)
    if rep["case"].get("t") == "trace":
        import tracejobs
        rejs = tracejobs.replay_history(rep["case"], wd) if rep["case"].get("history") else tracejobs.replay(rep["case"], wd)
        for r in rejs:
            print("REPRODUCED property=%s kind=trace-rejected at line %d, model at %s" % (prop, r["at"], r["model"][:200]))
        if rejs:
            print("VIOLATION property=%s replay=%s" % (prop, path))
            return 1
        print("not reproduced: the recorded execution of this program is accepted on the current tree")
        return 0
    if rep["case"].get("t") == "repl":
        build_query_bin()
    cp = os.path.join(wd, "cases.ndjson")
    with open(cp, "w") as f:
        f.write(json.dumps(rep["case"]) + "\n")
    res = run_harness(cp, wd)
    bad = []
    with open(res) as f:
        for l in f:
            if l.startswith('{"begin"'):
                continue
            r = json.loads(l)
            bad += [b for b in r["bad"] if b["prop"] == prop]
    for b in bad:
        print("REPRODUCED property=%s kind=%s %s" % (prop, b["kind"], b["detail"]))
    if bad:
        print("VIOLATION property=%s replay=%s" % (prop, path))
        return 1
    print("not reproduced: the case passes on the current tree")
    return 0


def do_check(prop, tier, seed, t0):
    CURRENT_TIER[0] = tier
    pdef = PROPS[prop]
    acc = dict(evaluations=0, kinds=collections.Counter(), paths=set(), actions=collections.Counter(),
               distinct=set(), samples=[], bad=[], excluded=collections.Counter())
    states = trans = 0
    traces = 0
    jobs_run = []
    for jobname in pdef["jobs"]:
        job = JOBS[jobname]
        if tier not in job.get("tiers", ("quick", "thorough")):
            continue
        wd = os.path.join(WORK, "%s-%s-%s" % (prop, tier, jobname))
        shutil.rmtree(wd, ignore_errors=True)
        if job.get("query_bin"):
            build_query_bin()
        if job.get("kind", "replay") == "replay":
            r = run_tlc(job, tier, seed, wd)
            states += r["states"]
            trans += r["transitions"]
            res = run_harness(r["cases_path"], wd)
            before = acc["evaluations"]
            aggregate(prop, jobname, job, r["cases_path"], res, acc)
            traces += r["ncases"]
            jobs_run.append({"job": jobname, "module": job["module"], "constants": job.get("constants", {}),
                             "states": r["states"], "cases": r["ncases"],
                             "evaluations_for_property": acc["evaluations"] - before,
                             "tlc_s": round(r["wall"], 1)})
        else:
            import tracejobs
            r = tracejobs.run(jobname, job, prop, tier, seed, wd, acc)
            states += r["states"]
            trans += r["transitions"]
            traces += r["traces"]
            jobs_run.append(r["summary"])
        if not os.environ.get("VERIF_KEEP"):
            for f in ("tlc.out",):
                try:
                    os.remove(os.path.join(wd, f))
                except OSError:
                    pass
    # verdict
    known = load_known()
    unknown = []
    known_hits = collections.OrderedDict()
    for b in acc["bad"]:
        k = known_match(prop, b["job"], b["obs"], known)
        if k:
            known_hits.setdefault(k["id"], [k, 0])[1] += 1
        else:
            unknown.append(b)
    for kid, (k, n) in known_hits.items():
        print("KNOWN-FINDING: property=%s %s (%d cases)" % (prop, k["what"], n))
    rc = 0
    if unknown:
        os.makedirs(os.path.join(EVID, "replays"), exist_ok=True)
        seen = set()
        shown = 0
        for b in unknown:
            key = (b["job"], b["obs"]["kind"])
            if key in seen and shown >= 3:
                continue
            seen.add(key)
            shown += 1
            if shown > 8:
                break
            rp = os.path.join(EVID, "replays", "%s-%d.json" % (prop, shown))
            with open(rp, "w") as f:
                json.dump({"property": prop, "job": b["job"], "case": b["case"], "observed": b["obs"]}, f, indent=1)
            print("  %s: %s" % (b["obs"]["kind"], b["obs"]["detail"][:400]))
            print("VIOLATION property=%s replay=%s" % (prop, rp))
        print("%d violating cases in total (%d shown)" % (len(unknown), min(shown, 8)))
        rc = 1
    if acc["evaluations"] == 0:
        raise ToolError("no case exercised property %s (vacuous run)" % prop)
    coverage = {
        "states": states, "transitions": trans,
        "traces_validated_against_impl": traces,
        "evaluations": acc["evaluations"],
        "distinct_nontrivial": len(acc["distinct"]),
        "rule": pdef.get("rule", ""),
        "samples": acc["samples"] or [{"note": "see jobs"}],
        "jobs": jobs_run,
        "verdict_kinds": dict(acc["kinds"]),
        "distinct_action_paths": len(acc["paths"]),
        "action_counts": dict(acc["actions"]),
        "excluded_cases": dict(acc["excluded"]),
        "exhaustive": bool(pdef.get("exhaustive", True)),
        "known_findings_hit": {k: v[1] for k, v in known_hits.items()},
    }
    write_evidence(prop, tier, seed, pdef.get("level", "model_checking"), coverage,
                   time.time() - t0, len(unknown), pdef.get("assumptions", []))
    log("%s %s: %d evaluations, %d violations, %.1fs" % (prop, tier, acc["evaluations"], len(unknown), time.time() - t0))
    return rc
