#!/usr/bin/env python3
"""Regenerate /verif/MANIFEST.json from lib/jobs.py (claimed properties) and properties.jsonl."""
import json, os, sys
sys.path.insert(0, os.path.dirname(os.path.abspath(__file__)))
from jobs import PROPS, NOT_APPLICABLE, LEVEL_TEXT
ROOT = os.path.dirname(os.path.dirname(os.path.abspath(__file__)))
props = [json.loads(l) for l in open(os.path.join(ROOT, "properties.jsonl"))]
checks = []
for p in props:
    pid = p["id"]
    if pid not in PROPS:
        continue
    d = PROPS[pid]
    checks.append({
        "property_id": pid,
        "quick_cmd": "./check %s quick" % pid,
        "thorough_cmd": "./check %s thorough" % pid,
        "evidence_file": "/verif/evidence/%s.json" % pid,
        "replay_cmd_template": "./check %s --replay {path}" % pid,
        "engine": "tla-spec+harness",
        "level_claimed": {"category": d.get("level", "model_checking"),
                          "text": d.get("level_text", LEVEL_TEXT),
                          "design_ref": "DESIGN.md section 5 (%s)" % pid},
        "level_note": d.get("level_note", "bounded universes (stated in the evidence rule); trusted: TLC, the Json module, the harness's builder/projection, rustc"),
        "technique": d.get("technique", "TLA+ specification model-checked with TLC; conformance by replaying TLC-generated behaviours into the crate"),
    })
na = [{"property_id": p["id"], "reason": NOT_APPLICABLE.get(p["id"], "check under construction in this build session (DESIGN.md section 10); not claimed yet")}
      for p in props if p["id"] not in PROPS]
hooks_commits = []
hc = os.path.join(ROOT, "hooks_commits.txt")
if os.path.exists(hc):
    hooks_commits = [l.strip() for l in open(hc) if l.strip()]
m = {"version": 1,
     "setup_cmd": "./setup.sh",
     "hooks": {"guard": "suiron_verif",
               "enable": "RUSTFLAGS --cfg suiron_verif (set for the harness build in /verif/harness/.cargo/config.toml)",
               "baseline_off_cmd": "cd /repo && cargo nextest run --workspace --no-fail-fast --offline",
               "source_commits": hooks_commits, "add_only": True},
     "engines": [{"name": "tla-spec+harness", "path": "/verif/spec /verif/harness /verif/lib /verif/check",
                  "serves_properties": sorted(k for k in PROPS.keys() if k in {p["id"] for p in props}),
                  "kind_free_text": "explicit TLA+ specification checked with TLC; Rust conformance harness replaying TLC-generated behaviours and recording traces for TLC trace validation"}],
     "checks": checks,
     "not_applicable": na,
     "notes": "Design, per-property procedures, findings and corrections: DESIGN.md. Known findings: known_findings.json."}
json.dump(m, open(os.path.join(ROOT, "MANIFEST.json"), "w"), indent=1)
print("MANIFEST: %d checks, %d not applicable" % (len(checks), len(na)))
