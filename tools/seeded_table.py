#!/usr/bin/env python3
"""Regenerates the table of seeded changes in DESIGN.md (between the seeded-table markers) from seeded/*/meta.json."""
import json, os, glob, re
ROOT = os.path.dirname(os.path.dirname(os.path.abspath(__file__)))
rows = []
for d in sorted(glob.glob(os.path.join(ROOT, "seeded", "*"))):
    m = json.load(open(os.path.join(d, "meta.json")))
    v = []
    for p, r in m.get("checks_against_it", {}).items():
        s = "%s detected" % p if r.get("exit") == 1 else "%s not flagged" % p
        if r.get("first_run") or "first run of the check" in (r.get("note") or ""):
            s += " (missed at first)"
        v.append(s)
    needs = (m.get("needs_to_manifest") or "").replace("\n", " ")
    needs = re.split(r"(?<=[a-z\)])\. |; ", needs)[0][:150]
    rows.append("| `%s` | %s | %s |" % (os.path.basename(d), needs.replace("|", "\\|"), "; ".join(v)))
table = "| seeded change (`seeded/<id>/`) | needs, to manifest | quick checks run against it |\n|---|---|---|\n" + "\n".join(rows) + "\n"
p = os.path.join(ROOT, "DESIGN.md")
s = open(p).read()
a = s.index("<!-- seeded-table-begin -->") + len("<!-- seeded-table-begin -->\n")
b = s.index("<!-- seeded-table-end -->")
open(p, "w").write(s[:a] + table + s[b:])
print("%d seeded changes" % len(rows))
