#!/usr/bin/env python3
"""Prints the table of seeded changes and the checks' verdicts on them (from seeded/*/meta.json)."""
import json, os, glob
ROOT = os.path.dirname(os.path.dirname(os.path.abspath(__file__)))
print("| seeded change | breaks | needs to manifest (short) | checks run -> verdict |")
print("|---|---|---|---|")
for d in sorted(glob.glob(os.path.join(ROOT, "seeded", "*"))):
    m = json.load(open(os.path.join(d, "meta.json")))
    res = m.get("checks_against_it", {})
    verdicts = ", ".join("%s: %s" % (p, "DETECTED" if r.get("exit") == 1 else "missed" if r.get("exit") == 0 else "tool error") for p, r in res.items())
    note = "; ".join(r["note"] for r in res.values() if r.get("note"))
    needs = (m.get("needs_to_manifest") or "").split(". ")[0][:160]
    print("| %s | %s | %s | %s%s |" % (os.path.basename(d), m.get("breaks_property"), needs.replace("|", "\\|"), verdicts, (" (" + note[:120] + ")") if note else ""))
