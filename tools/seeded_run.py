#!/usr/bin/env python3
"""tools/seeded_run.py <ID> <property> [more properties...] [--tier quick|thorough]

Development tooling (not a registered check).  Applies /verif/seeded/<ID>/patch.diff to /repo,
runs `./check <property> <tier>` for each property, restores /repo and the committed evidence
straight afterwards, and records the outcome under "checks_against_it" in the seeded change's meta.json.
"""
import json, os, subprocess, sys, time
ROOT = os.path.dirname(os.path.dirname(os.path.abspath(__file__)))


def sh(cmd, cwd=None, timeout=7200):
    p = subprocess.run(cmd, cwd=cwd, shell=True, stdout=subprocess.PIPE, stderr=subprocess.STDOUT, text=True, timeout=timeout)
    return p.returncode, p.stdout


def main():
    args = sys.argv[1:]
    tier = "quick"
    if "--tier" in args:
        i = args.index("--tier"); tier = args[i + 1]; del args[i:i + 2]
    mid, props = args[0], args[1:]
    dst = os.path.join(ROOT, "seeded", mid)
    rc, o = sh("git status --short -- src build.rs Cargo.toml", "/repo")
    if o.strip():
        print("/repo is not clean:", o); return 2
    results = {}
    try:
        rc, o = sh("git apply %s" % os.path.join(dst, "patch.diff"), "/repo")
        if rc != 0:
            print("patch does not apply to /repo:", o); return 2
        for p in props:
            t0 = time.time()
            rc, o = sh("./check %s %s" % (p, tier), ROOT)
            viol = [l for l in o.split("\n") if l.startswith("VIOLATION")]
            detail = [l for l in o.split("\n") if l.startswith("  ")][:1]
            results[p] = {"exit": rc, "tier": tier, "violations_reported": len(viol),
                          "first": (detail[0].strip()[:300] if detail else ""), "seconds": round(time.time() - t0)}
            print("  check %s %s -> exit %d (%s) %s" % (p, tier, rc, "DETECTED" if rc == 1 else "MISSED" if rc == 0 else "TOOL ERROR",
                                                       results[p]["first"][:200]))
            if rc == 2:
                print(o[-1500:])
    finally:
        sh("git checkout -- .", "/repo")
        sh("git checkout -- evidence", ROOT)
    mp = os.path.join(dst, "meta.json")
    meta = json.load(open(mp))
    old = meta.setdefault("checks_against_it", {})
    for p, r in results.items():
        if p in old and old[p].get("exit") == 0 and r.get("exit") == 1:
            r["first_run"] = {k: v for k, v in old[p].items() if k != "first_run"}
            r["note"] = "MISSED by the check as it was when the change was first evaluated; detected after the check was strengthened (DESIGN.md section 14)"
        old[p] = r
    json.dump(meta, open(mp, "w"), indent=1)
    return 0


if __name__ == "__main__":
    sys.exit(main())
