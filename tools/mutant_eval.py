#!/usr/bin/env python3
"""tools/mutant_eval.py <ID> <worktree> <property> [more properties...]

Development tooling (not a registered check).  Confirms a seeded change produced by a
sub-agent in its scratch worktree and runs the owning checks against it:
  1. in the worktree: the existing suite passes with the change, the demonstration fails
     with it and passes without it (git apply -R / git apply, never git stash)
  2. copies patch.diff, the demonstration and meta.json to /verif/seeded/<ID>/
  3. applies the patch to /repo, runs `./check <property> quick` for each property, and
     restores /repo (git checkout -- .) straight afterwards
"""
import json, os, shutil, subprocess, sys, time
ROOT = os.path.dirname(os.path.dirname(os.path.abspath(__file__)))

def sh(cmd, cwd=None, timeout=1800):
    p = subprocess.run(cmd, cwd=cwd, shell=True, stdout=subprocess.PIPE, stderr=subprocess.STDOUT, text=True, timeout=timeout)
    return p.returncode, p.stdout

def main():
    mid, wt = sys.argv[1], sys.argv[2]
    props = sys.argv[3:]
    mdir = os.path.join(wt, "MUTANT")
    patch = os.path.join(mdir, "patch.diff")
    out = {"id": mid, "properties": props, "ran": []}
    # --- 1. confirm in the worktree
    rc, o = sh("git status --short", wt)
    # make sure the patch is what is applied
    rc_r, _ = sh("git apply -R --check %s" % patch, wt)
    if rc_r != 0:
        print("patch is not cleanly applied in the worktree; trying to apply"); sh("git checkout -- src", wt); rc_a, o = sh("git apply %s" % patch, wt); print(o)
    rc, o = sh("cargo nextest run --workspace --no-fail-fast --offline -E 'not binary(mutant_demo)' 2>&1 | grep -E 'Summary|FAIL ' | sort -u | head -8", wt)
    fails = [l for l in o.split("\n") if "FAIL" in l]
    suite_ok = "passed" in o and not fails
    if fails and all("test_query_timer" in l for l in fails):
        # the 30 ms / 40 ms timing test is flaky under load: run it alone
        rc2, o2 = sh("cargo nextest run --offline -E 'test(test_query_timer)' 2>&1 | grep -E 'Summary' | head -2", wt)
        suite_ok = "1 passed" in o2
        o += " ; test_query_timer (timing-sensitive) alone: " + o2.strip()
    out["ran"].append("existing suite with the change: " + o.strip().replace("\n", " ; "))
    rc, o = sh("cargo nextest run --offline --no-fail-fast --test mutant_demo 2>&1 | grep -E 'Summary' | head -3", wt)
    demo_fails = "failed" in o
    out["ran"].append("demonstration with the change: " + o.strip())
    sh("git apply -R %s" % patch, wt)
    rc, o = sh("cargo nextest run --offline --no-fail-fast --test mutant_demo 2>&1 | grep -E 'Summary' | head -3", wt)
    demo_passes = "failed" not in o and "passed" in o
    out["ran"].append("demonstration without the change: " + o.strip())
    sh("git apply %s" % patch, wt)
    print("suite passes with change: %s | demo fails with: %s | demo passes without: %s" % (suite_ok, demo_fails, demo_passes))
    out["confirmed"] = bool(suite_ok and demo_fails and demo_passes)
    # --- 2. keep
    dst = os.path.join(ROOT, "seeded", mid)
    os.makedirs(dst, exist_ok=True)
    shutil.copy(patch, os.path.join(dst, "patch.diff"))
    shutil.copy(os.path.join(mdir, "mutant_demo.rs"), os.path.join(dst, "mutant_demo.rs"))
    meta = {}
    try:
        meta = json.load(open(os.path.join(mdir, "meta.json")))
    except Exception as e:
        meta = {"note": "meta.json of the sub-agent unreadable: %s" % e}
    # --- 3. run the checks against it
    rc, o = sh("git status --short -- src build.rs Cargo.toml", "/repo")
    if o.strip():
        print("/repo is not clean:", o); return 2
    results = {}
    try:
        rc, o = sh("git apply %s" % os.path.join(dst, "patch.diff"), "/repo")
        if rc != 0:
            print("patch does not apply to /repo:", o); results = {"apply": "failed: " + o}
        else:
            for p in props:
                t0 = time.time()
                rc, o = sh("./check %s quick" % p, ROOT)
                viol = [l for l in o.split("\n") if l.startswith("VIOLATION") or l.startswith("TOOL-ERROR")]
                firstdetail = [l for l in o.split("\n") if l.startswith("  ")][:2]
                results[p] = {"exit": rc, "violations_reported": len([v for v in viol if v.startswith("VIOLATION")]),
                              "first": (firstdetail[0].strip()[:300] if firstdetail else ""), "seconds": round(time.time() - t0)}
                print("  check %s quick -> exit %d (%s) %s" % (p, rc, "DETECTED" if rc == 1 else "MISSED" if rc == 0 else "TOOL ERROR", results[p]["first"][:160]))
                if rc == 2:
                    print(o[-1500:])
    finally:
        sh("git checkout -- .", "/repo")
        # the evidence files written while the change was applied describe the CHANGED tree: put the committed ones back
        sh("git checkout -- evidence", ROOT)
    meta_out = {"breaks_property": props[0] if props else None, "summary": meta.get("summary"), "needs_to_manifest": meta.get("needs"),
                "agent_ran": meta.get("ran"), "confirmed_by_me": out["confirmed"], "i_ran": out["ran"], "checks_against_it": results}
    json.dump(meta_out, open(os.path.join(dst, "meta.json"), "w"), indent=1)
    return 0

if __name__ == "__main__":
    sys.exit(main())
