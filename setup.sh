#!/bin/sh
# Build the conformance harness (offline) and syntax-check every specification module.
set -e
cd "$(dirname "$0")"
[ -f harness/Cargo.lock ] || cp /repo/Cargo.lock harness/Cargo.lock
(cd harness && CARGO_NET_OFFLINE=true cargo build --offline --release)
mkdir -p work/sany evidence
cp spec/*.tla work/sany/
for m in work/sany/MC_*.tla work/sany/Trace*.tla; do
  [ -f "$m" ] || continue
  (cd work/sany && tla-sany "$(basename "$m")" > "$(basename "$m").sany" 2>&1) || { cat "work/sany/$(basename "$m").sany"; exit 1; }
done
echo setup ok
